#!/bin/sh
# Determinism proof: every scenario, N runs, per-run event-log hashes + merged
# coverage fingerprints, executed in separate processes with 1, 3 and 16 worker
# threads (twice each) and under two batch seeds; all outputs must be identical
# per seed. Usage: selftest/determinism.sh [N]   (default 3000)
cd "$(dirname "$0")/.." || exit 2
./check build || exit 2
N=${1:-3000}
BIN=sim/target/release/pcsim
TMP=$(mktemp -d)
rc=0
for seed in 1 7919; do
  for p in C01 C02 C04 C05 C06 C07 C08 C13 C14 C18 C19; do
    ref=""
    for th in 1 3 16 16 1; do
      out="$TMP/$p.$seed.$th.$$"
      VERIF_SEED=$seed PCSIM_THREADS=$th $BIN hashes $p $N > "$out.$(date +%N)" 2>&1 || { echo "FAIL $p: hashes exited non-zero"; rc=1; }
    done
    n=$(md5sum "$TMP/$p.$seed."* | awk '{print $1}' | sort -u | wc -l)
    lines=$(cat "$TMP/$p.$seed."* | wc -l)
    if [ "$n" != "1" ]; then echo "NONDETERMINISTIC $p seed=$seed: $n distinct outputs"; rc=1; else echo "deterministic $p seed=$seed: 5 executions x $N runs identical ($lines lines compared)"; fi
    rm -f "$TMP/$p.$seed."*
  done
done
rmdir "$TMP" 2>/dev/null
exit $rc
