#!/bin/sh
# selftest/vet_seeded.sh <change-dir> <name> <property>
# Confirm an independently produced breaking change before keeping it:
#   pristine tree: 32 pinned tests pass, demo passes
#   changed tree:  32 pinned tests pass, demo FAILS
# in a scratch worktree outside /repo and /verif. On success the change is
# copied to /verif/seeded/<name>/ (patch.diff, demo.rs, notes.md, meta.json).
set -u
SRC=$(cd "$1" && pwd) || exit 2
NAME=$2; PROP=$3
WT=$(mktemp -d /tmp/pcvet.XXXXXX); rmdir "$WT"
git -C /repo worktree add -q --detach "$WT" || exit 2
cleanup() { git -C /repo worktree remove --force "$WT" 2>/dev/null; rm -rf "$WT"; }
cd "$WT" || exit 2
export CARGO_NET_OFFLINE=true
mkdir -p tests && cp "$SRC/demo.rs" tests/demo.rs
p0=$(cargo test --offline --test demo 2>&1 | grep -c "test result: ok")
if ! git apply "$SRC/patch.diff" 2>/dev/null; then echo "VET $NAME: patch does not apply"; cleanup; exit 1; fi
if git diff --name-only | grep -v '^src/' | grep -q .; then echo "VET $NAME: touches files outside src/"; cleanup; exit 1; fi
unit=$(cargo test --offline --lib 2>&1 | grep "test result:" | head -1)
p1=$(cargo test --offline --test demo 2>&1 | grep -c "test result: ok")
cleanup
case "$unit" in *"32 passed; 0 failed"*) ;; *) echo "VET $NAME: pinned tests do not all pass with the change: $unit"; exit 1 ;; esac
if [ "$p0" != "1" ]; then echo "VET $NAME: demo does not pass on the pristine tree"; exit 1; fi
if [ "$p1" != "0" ]; then echo "VET $NAME: demo does not fail with the change"; exit 1; fi
D=/verif/seeded/$NAME
mkdir -p "$D"
cp "$SRC/patch.diff" "$SRC/demo.rs" "$D/"
[ -f "$SRC/notes.md" ] && cp "$SRC/notes.md" "$D/"
if [ ! -f "$D/meta.json" ]; then
cat > "$D/meta.json" <<EOM
{
 "breaks": ["$PROP"],
 "origin": "independent sub-agent given only the property text and a scratch worktree",
 "needs_to_manifest": "see notes.md",
 "confirmed": "selftest/vet_seeded.sh: pristine tree 32/32 pinned tests + demo pass; with patch 32/32 pinned tests pass and demo fails",
 "checks_run": "selftest/sensitivity.sh seeded-$NAME (all 11 quick checks built against a scratch worktree with the patch)"
}
EOM
fi
echo "VET $NAME: confirmed, kept in $D"
