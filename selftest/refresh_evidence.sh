#!/bin/sh
# Rewrite /verif/evidence/<id>.json from the registered quick commands with the
# default seed (what the committed evidence must describe).
cd "$(dirname "$0")/.." || exit 2
rc=0
for p in C01 C02 C04 C05 C06 C07 C08 C13 C14 C18 C19; do
  VERIF_SEED=1 ./check $p quick | grep -v KNOWN-FINDING | tail -1 || rc=1
done
exit $rc
