#!/bin/sh
# Sensitivity proof: apply each mutant of selftest/mutants (and of
# /verif/seeded/*/patch.diff, and the behaviour-preserving changes of
# selftest/benign, on which every check must stay quiet) to a scratch worktree OUTSIDE /repo and /verif,
# build the simulator against it once, run every check's quick tier there, and
# compare with the properties the mutant is meant to break. Writes
# selftest/sensitivity_matrix.txt. Usage: selftest/sensitivity.sh [pattern] [jobs]
cd "$(dirname "$0")/.." || exit 2
HERE=$(pwd)
PAT=${1:-}
ONLY=${ONLY:-}
JOBS=${2:-4}
PROPS="C01 C02 C04 C05 C06 C07 C08 C13 C14 C18 C19"
WORK=$(mktemp -d /tmp/pcsens.XXXXXX)
one() {
    patch="$1"; name="$2"
    wt="$WORK/wt-$name"; scr="$WORK/scr-$name"
    git -C /repo worktree add -q --detach "$wt" 2>/dev/null || { echo "$name WORKTREE-FAILED"; return; }
    if ! (cd "$wt" && grep -v '^#' "$patch" | git apply - 2>/dev/null); then
        echo "$name APPLY-FAILED" > "$WORK/res-$name"
    else
        mkdir -p "$scr/sim" "$scr/root/evidence" "$scr/root/replays"
        cp -r "$HERE/sim/src" "$HERE/sim/.cargo" "$HERE/sim/build.rs" "$scr/sim/"
        sed "s#path = \"/repo\"#path = \"$wt\"#" "$HERE/sim/Cargo.toml" > "$scr/sim/Cargo.toml"
        cp "$HERE/known_findings.txt" "$scr/root/"
        if (cd "$scr/sim" && CARGO_NET_OFFLINE=true cargo build --release --offline --quiet 2>"$scr/build.log"); then
            line="$name"
            for p in $PROPS; do
                (cd "$scr/root" && PCSIM_ROOT="$scr/root" PCSIM_THREADS=4 "$scr/sim/target/release/pcsim" $p quick > "$scr/out-$p.txt" 2>&1)
                rc=$?
                line="$line $p=$rc"
            done
            echo "$line" > "$WORK/res-$name"
            mkdir -p "$WORK/replays-$name"; cp "$scr"/root/replays/* "$WORK/replays-$name/" 2>/dev/null
        else
            echo "$name BUILD-FAILED" > "$WORK/res-$name"
        fi
    fi
    git -C /repo worktree remove --force "$wt" 2>/dev/null
    rm -rf "$scr" "$wt"
}
n=0
for patch in selftest/mutants/*.patch selftest/benign/*.patch seeded/*/patch.diff; do
    [ -f "$patch" ] || continue
    case "$patch" in
        seeded/*) name="seeded-$(basename "$(dirname "$patch")")" ;;
        selftest/benign/*) name="benign-$(basename "$patch" .patch)" ;;
        *) name=$(basename "$patch" .patch) ;;
    esac
    case "$name" in *"$PAT"*) ;; *) continue ;; esac
    # ONLY=mutants|benign|seeded restricts the run to one corpus
    case "${ONLY:-}" in
        mutants) case "$patch" in selftest/mutants/*) ;; *) continue ;; esac ;;
        benign) case "$patch" in selftest/benign/*) ;; *) continue ;; esac ;;
        seeded) case "$patch" in seeded/*) ;; *) continue ;; esac ;;
    esac
    one "$HERE/$patch" "$name" &
    n=$((n+1))
    if [ $((n % JOBS)) -eq 0 ]; then wait; fi
done
wait
# report
OUT=selftest/sensitivity_matrix.txt
[ -n "$PAT$ONLY" ] && OUT="$WORK/matrix.txt"
{
echo "# mutant | meant to break | checks that reported a violation (exit 1) | missed | harness errors (exit 2)"
rc_all=0
for patch in selftest/mutants/*.patch selftest/benign/*.patch seeded/*/patch.diff; do
    [ -f "$patch" ] || continue
    case "$patch" in
        seeded/*) name="seeded-$(basename "$(dirname "$patch")")"; want=$(python3 -c "import json,sys;print(' '.join(json.load(open('$(dirname "$patch")/meta.json'))['breaks']))" 2>/dev/null) ;;
        selftest/benign/*) name="benign-$(basename "$patch" .patch)"; want="" ;;
        *) name=$(basename "$patch" .patch); want=$(grep '^# breaks:' "$patch" | sed 's/# breaks: *//') ;;
    esac
    [ -f "$WORK/res-$name" ] || continue
    res=$(cat "$WORK/res-$name")
    caught=""; errs=""; missed=""
    for p in $PROPS; do
        case "$res" in *"$p=1"*) caught="$caught $p" ;; esac
        case "$res" in *"$p=2"*) errs="$errs $p" ;; esac
    done
    for w in $want; do case "$caught" in *"$w"*) ;; *) missed="$missed $w" ;; esac; done
    case "$name" in benign-*) [ -n "$caught" ] && missed=" FALSE-ALARM:$caught" ;; esac
    case "$res" in *FAILED*) errs="$res" ;; esac
    echo "$name | $want |$caught |${missed:- -} |${errs:- -}"
done
} > "$OUT"
cat "$OUT"
if grep -v '^#' "$OUT" | awk -F'|' '{ if ($4 !~ /^ *- *$/ || $5 !~ /^ *- *$/) bad=1 } END { exit bad }'; then echo "SENSITIVITY OK: every mutant is caught by every check it is meant to break, no harness errors"; rc=0; else echo "SENSITIVITY GAPS (see columns 4 and 5)"; rc=1; fi
rm -rf "$WORK"
exit $rc
