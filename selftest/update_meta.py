#!/usr/bin/env python3
"""selftest/update_meta.py <matrix-or-log files...>
Fill seeded/<id>/meta.json from sensitivity output lines
('seeded-<id> | want | caught | missed | errors'): the checks that reported a
violation, and the trigger text from notes.md."""
import sys, json, os, re
rows = {}
for f in sys.argv[1:]:
    for l in open(f, errors='replace'):
        m = re.match(r'^seeded-(\S+) \|([^|]*)\|([^|]*)\|([^|]*)\|(.*)$', l)
        if m:
            rows[m.group(1)] = (m.group(3).split(), m.group(5).strip())
for name, (caught, errs) in sorted(rows.items()):
    d = f'/verif/seeded/{name}'
    mp = d + '/meta.json'
    if not os.path.exists(mp):
        continue
    meta = json.load(open(mp))
    meta['caught_by_quick_checks'] = caught
    if errs not in ('-', ''):
        meta['harness_errors'] = errs
    if meta.get('needs_to_manifest', 'see notes.md') == 'see notes.md' and os.path.exists(d + '/notes.md'):
        t = ' '.join(open(d + '/notes.md').read().split())
        meta['needs_to_manifest'] = t[:900]
    meta['checks_run'] = 'selftest/sensitivity.sh: scratch worktree outside /repo and /verif with this patch applied, simulator built against it once, all 11 quick checks run (VERIF_SEED=1)'
    json.dump(meta, open(mp, 'w'), indent=1)
    print(name, meta['breaks'], '->', caught)
