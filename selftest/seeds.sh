#!/bin/sh
# No-alarm proof on the unchanged tree: every check's quick tier under N
# different VERIF_SEED values (default 50) must exit 0. Evidence files are
# restored afterwards (the committed ones describe VERIF_SEED=1).
# Usage: selftest/seeds.sh [N] [tier]
cd "$(dirname "$0")/.." || exit 2
./check build || exit 2
N=${1:-50}
TIER=${2:-quick}
BAK=$(mktemp -d)
cp -r evidence "$BAK/"
bad=0
for p in C01 C02 C04 C05 C06 C07 C08 C13 C14 C18 C19; do
  ok=0
  for s in $(seq 1 "$N"); do
    seed=$((s * 7919 + 13))
    if VERIF_SEED=$seed sim/target/release/pcsim $p "$TIER" > "$BAK/out.txt" 2>&1; then ok=$((ok+1)); else echo "ALARM $p VERIF_SEED=$seed exit=$?"; grep -v KNOWN-FINDING "$BAK/out.txt" | tail -3; bad=1; fi
  done
  echo "$p: $ok/$N seeds exit 0 ($TIER)"
done
rm -rf evidence && cp -r "$BAK/evidence" evidence
rm -rf "$BAK"
exit $bad
