#!/bin/sh
# selftest/run_on.sh <repo-dir> <id> [quick|thorough] ...
# Build the simulator against another copy of the repository (a scratch worktree
# carrying a deliberately broken change) and run one check there. Nothing under
# /verif/evidence or /verif/replays is touched: the run gets its own root.
# Scratch build + root live under $PCSIM_SCRATCH (default /tmp/pcsim-scratch.$$)
# and are removed afterwards unless KEEP=1.
set -u
REPO_DIR=$(cd "$1" && pwd) || exit 2
shift
HERE=$(cd "$(dirname "$0")/.." && pwd)
SCR=${PCSIM_SCRATCH:-/tmp/pcsim-scratch.$$}
mkdir -p "$SCR/sim" "$SCR/root/evidence" "$SCR/root/replays"
cp -r "$HERE/sim/src" "$HERE/sim/.cargo" "$HERE/sim/build.rs" "$SCR/sim/"
sed "s#path = \"/repo\"#path = \"$REPO_DIR\"#" "$HERE/sim/Cargo.toml" > "$SCR/sim/Cargo.toml"
cp "$HERE/known_findings.txt" "$SCR/root/"
rc=0
if (cd "$SCR/sim" && CARGO_NET_OFFLINE=true cargo build --release --offline --quiet 2>"$SCR/build.log"); then
    (cd "$SCR/root" && PCSIM_ROOT="$SCR/root" "$SCR/sim/target/release/pcsim" "$@")
    rc=$?
    if [ -n "${SAVE_REPLAYS:-}" ]; then mkdir -p "$SAVE_REPLAYS" && cp "$SCR"/root/replays/* "$SAVE_REPLAYS"/ 2>/dev/null; fi
else
    echo "HARNESS-ERROR: build against $REPO_DIR failed" >&2
    tail -n 20 "$SCR/build.log" >&2
    rc=2
fi
[ "${KEEP:-0}" = "1" ] || rm -rf "$SCR"
exit $rc
