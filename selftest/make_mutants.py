#!/usr/bin/env python3
"""Generate the mutant corpus (selftest/mutants/*.patch) from textual edits.

Each mutant is a small, realistic slip in pc-keyboard. A mutant is kept only if
the crate still compiles and its 32 pinned tests still pass with it (checked
here, in a scratch worktree outside /repo and /verif). The header of each patch
names the properties it is meant to break; selftest/sensitivity.sh then checks
that those checks fail on it and records which other checks fire too.
"""
import subprocess, os, sys, shutil, tempfile

LIB = "src/lib.rs"; S1 = "src/scancodes/set1.rs"; S2 = "src/scancodes/set2.rs"

M = []
def m(name, breaks, f, old, new, why, count=1):
    M.append((name, breaks, [(f, old, new, count)], why))
def m2(name, breaks, edits, why):
    M.append((name, breaks, [(f, o, n, 1) for f, o, n in edits], why))

# ---- C01 / Set 2 table and automaton
m2("set2_swap_A_S", ["C01", "C13"], [(S2, "0x1B => Ok(KeyCode::S)", "0x1B => Ok(KeyCode::A)"), (S2, "0x1C => Ok(KeyCode::A)", "0x1C => Ok(KeyCode::S)")], "two Set 2 codes swapped")
m("set2_ext_7D_pagedown", ["C01", "C13", "C19"], S2, "0x7D => Ok(KeyCode::PageUp)", "0x7D => Ok(KeyCode::PageDown)", "extended key given the wrong identity (and a duplicate)")
m("set2_F7_at_84", ["C01", "C13"], S2, "0x83 => Ok(KeyCode::F7)", "0x84 => Ok(KeyCode::F7)", "F7 filed under 0x84 instead of 0x83 (table size unchanged)")
m("set2_e1_gains_77", ["C01"], S2, "0x14 => Ok(KeyCode::RControl2),", "0x14 => Ok(KeyCode::RControl2),\n            0x77 => Ok(KeyCode::PauseBreak),", "E1 table gains an undefined code")
m("set2_ext_e0_stays_extended", ["C01", "C07"], S2, """            DecodeState::Extended => match code {
                KEY_RELEASE_CODE => {""", """            DecodeState::Extended => match code {
                EXTENDED_KEY_CODE => Ok(None),
                KEY_RELEASE_CODE => {""", "E0 E0 keeps waiting: a prefix can now influence arbitrarily many bytes")
m("set2_e1_release_to_plain_release", ["C01", "C19"], S2, "self.state = DecodeState::Extended2Release;", "self.state = DecodeState::Release;", "E1 F0 x decoded through the plain table")
m("set2_ext_release_uses_plain_table", ["C01", "C19", "C13"], S2, """                Ok(Some(KeyEvent::new(
                    Self::map_extended_scancode(code)?,
                    KeyState::Up,
                )))""", """                Ok(Some(KeyEvent::new(
                    Self::map_scancode(code)?,
                    KeyState::Up,
                )))""", "E0 F0 x looked up in the unprefixed table")
m("set2_release_AA_singleshot", ["C01"], S2, """            DecodeState::Release => {
                self.state = DecodeState::Start;
                Ok(Some(KeyEvent::new(Self::map_scancode(code)?, KeyState::Up)))""", """            DecodeState::Release => {
                self.state = DecodeState::Start;
                if code == 0xAA {
                    return Ok(Some(KeyEvent::new(KeyCode::PowerOnTestOk, KeyState::SingleShot)));
                }
                Ok(Some(KeyEvent::new(Self::map_scancode(code)?, KeyState::Up)))""", "F0 AA treated as a power-on report")
# ---- C02 / Set 1
m2("set1_swap_F11_F12", ["C02", "C13"], [(S1, "0x57 => Ok(KeyCode::F11)", "0x57 => Ok(KeyCode::F12)"), (S1, "0x58 => Ok(KeyCode::F12)", "0x58 => Ok(KeyCode::F11)")], "two Set 1 codes swapped")
m("set1_ext_48_arrowdown", ["C02", "C13", "C19"], S1, "0x48 => Ok(KeyCode::ArrowUp)", "0x48 => Ok(KeyCode::ArrowDown)", "E0 48 given ArrowDown's identity")
m("set1_47_numpad8", ["C02", "C13", "C19"], S1, "0x47 => Ok(KeyCode::Numpad7)", "0x47 => Ok(KeyCode::Numpad8)", "copy-paste slip, two codes one key")
m("set1_ext_1D_lcontrol", ["C02", "C13", "C19"], S1, "0x1D => Ok(KeyCode::RControl),", "0x1D => Ok(KeyCode::LControl),", "right Ctrl reported as left Ctrl in Set 1 only")
m2("set1_2B_56_both_oem7", ["C02", "C13", "C19"], [(S1, "0x56 => Ok(KeyCode::Oem5)", "0x56 => Ok(KeyCode::Oem7)")], "0x2B and 0x56 both Oem7; table size unchanged")
m("set1_ext_gains_5E_apps", ["C02", "C19"], S1, "0x5D => Ok(KeyCode::Apps),", "0x5D => Ok(KeyCode::Apps),\n            0x5E => Ok(KeyCode::Apps),", "ACPI power code decoded as Apps")
m("set1_e1_break_off_by_one", ["C02", "C19"], S1, "Self::map_extended2_scancode(code - 0x80)?", "Self::map_extended2_scancode(code - 0x7F)?", "E1 break path subtracts the wrong constant")
m("set1_ext_break_plain_table", ["C02", "C19", "C13"], S1, "Self::map_extended_scancode(code - 0x80)?", "Self::map_scancode(code - 0x80)?", "E0 break path consults the unprefixed table")
# ---- C07 / resynchronisation: reset after the fallible lookup
m("set2_ext_reset_after_lookup", ["C07", "C01"], S2, """                    self.state = DecodeState::Start;

                    let keycode = Self::map_extended_scancode(code)?;
                    Ok(Some(KeyEvent::new(keycode, KeyState::Down)))""", """                    let keycode = Self::map_extended_scancode(code)?;
                    self.state = DecodeState::Start;
                    Ok(Some(KeyEvent::new(keycode, KeyState::Down)))""", "stuck in Extended after an unknown E0 code")
m("set2_release_reset_after_lookup", ["C07", "C01"], S2, """            DecodeState::Release => {
                self.state = DecodeState::Start;
                Ok(Some(KeyEvent::new(Self::map_scancode(code)?, KeyState::Up)))""", """            DecodeState::Release => {
                let k = Self::map_scancode(code)?;
                self.state = DecodeState::Start;
                Ok(Some(KeyEvent::new(k, KeyState::Up)))""", "stuck in Release after F0 + unknown code")
m("set2_extrelease_reset_after_lookup", ["C07", "C01"], S2, """            DecodeState::ExtendedRelease => {
                self.state = DecodeState::Start;
                Ok(Some(KeyEvent::new(
                    Self::map_extended_scancode(code)?,
                    KeyState::Up,
                )))""", """            DecodeState::ExtendedRelease => {
                let k = Self::map_extended_scancode(code)?;
                self.state = DecodeState::Start;
                Ok(Some(KeyEvent::new(k, KeyState::Up)))""", "stuck in ExtendedRelease after an unknown code")
m("set2_ext2_reset_after_lookup", ["C07", "C01"], S2, """                    self.state = DecodeState::Start;
                    Ok(Some(KeyEvent::new(
                        Self::map_extended2_scancode(code)?,
                        KeyState::Down,
                    )))""", """                    let k = Self::map_extended2_scancode(code)?;
                    self.state = DecodeState::Start;
                    Ok(Some(KeyEvent::new(k, KeyState::Down)))""", "stuck in Extended2 after an unknown E1 code")
m("set2_ext2release_reset_after_lookup", ["C07", "C01"], S2, """            DecodeState::Extended2Release => {
                self.state = DecodeState::Start;
                Ok(Some(KeyEvent::new(
                    Self::map_extended2_scancode(code)?,
                    KeyState::Up,
                )))""", """            DecodeState::Extended2Release => {
                let k = Self::map_extended2_scancode(code)?;
                self.state = DecodeState::Start;
                Ok(Some(KeyEvent::new(k, KeyState::Up)))""", "stuck in Extended2Release after an unknown code")
m("set1_ext_reset_after_lookup", ["C07", "C02"], S1, """            DecodeState::Extended => {
                self.state = DecodeState::Start;
                match code {""", """            DecodeState::Extended => {
                let r = match code {""", "placeholder", )
# the above needs a matching tail edit; handled specially below
# ---- C04 / modifiers
m("lalt_up_clears_ralt", ["C04"], LIB, """                code: KeyCode::LAlt,
                state: KeyState::Up,
            } => {
                self.modifiers.lalt = false;""", """                code: KeyCode::LAlt,
                state: KeyState::Up,
            } => {
                self.modifiers.lalt = false;
                self.modifiers.ralt = false;""", "copy-paste slip: LAlt release also clears AltGr")
m("raltgr_down_sets_lalt", ["C04"], LIB, "                self.modifiers.ralt = true;", "                self.modifiers.lalt = true;", "AltGr press sets the left-Alt flag")
m("numlock_toggles_inside_pause", ["C04"], LIB, """                    // sequence first.
                    Some(DecodedKey::RawKey(KeyCode::PauseBreak))""", """                    // sequence first.
                    self.modifiers.numlock = !self.modifiers.numlock;
                    Some(DecodedKey::RawKey(KeyCode::PauseBreak))""", "NumLock toggles inside the Pause sequence")
m("capslock_toggles_on_up_too", ["C04"], LIB, """            KeyEvent {
                code: KeyCode::NumpadLock,
                state: KeyState::Down,
            } => {""", """            KeyEvent {
                code: KeyCode::CapsLock,
                state: KeyState::Up,
            } => {
                self.modifiers.capslock = !self.modifiers.capslock;
                None
            }
            KeyEvent {
                code: KeyCode::NumpadLock,
                state: KeyState::Down,
            } => {""", "CapsLock toggles on release as well")
m("singleshot_lshift_sets_shift", ["C04"], LIB, """            KeyEvent {
                code: KeyCode::RShift,
                state: KeyState::Down,
            } => {""", """            KeyEvent {
                code: KeyCode::LShift,
                state: KeyState::SingleShot,
            } => {
                self.modifiers.lshift = true;
                None
            }
            KeyEvent {
                code: KeyCode::RShift,
                state: KeyState::Down,
            } => {""", "a one-shot event changes a modifier")
m("pause_inference_also_on_rctrl", ["C04", "C14"], LIB, "                if self.modifiers.rctrl2 {", "                if self.modifiers.rctrl2 || self.modifiers.rctrl {", "NumLock under the ordinary right Ctrl treated as Pause")
m("keyboard_clear_drops_shift", ["C04", "C18"], LIB, """    pub fn clear(&mut self) {
        self.ps2_decoder.clear();
    }""", """    pub fn clear(&mut self) {
        self.ps2_decoder.clear();
        self.event_decoder.modifiers.lshift = false;
        self.event_decoder.modifiers.rshift = false;
    }""", "Keyboard::clear() also touches modifier state")
m("rctrl2_up_ignored", ["C04"], LIB, """                self.modifiers.rctrl2 = false;
                None""", """                None""", "hidden Ctrl never released")
# ---- C05 / frame check
m("ps2_no_stop_check", ["C05"], LIB, """        if !stop_bit {
            return Err(Error::BadStopBit);
        }
""", "", "stop bit never checked")
m2("ps2_swap_error_order", ["C05"], [(LIB, """        if start_bit {
            return Err(Error::BadStartBit);
        }

        if !stop_bit {
            return Err(Error::BadStopBit);
        }
""", """        if !stop_bit {
            return Err(Error::BadStopBit);
        }

        if start_bit {
            return Err(Error::BadStartBit);
        }
""")], "error priority inverted")
m("ps2_parity_ignores_msb", ["C05"], LIB, "let need_parity = Self::has_even_number_bits(data);", "let need_parity = Self::has_even_number_bits(data & 0x7F) ^ (data == 0xF0);", "parity computed over seven bits (special-cased so the pinned frames still pass)")
m("ps2_start_bit_reads_bit_11", ["C05"], LIB, "let start_bit = Self::get_bit(word, 0);", "let start_bit = Self::get_bit(word, 0) & !Self::get_bit(word, 10);", "start bit only rejected when the stop bit is also wrong")
# ---- C06 / shift register
m("ps2_reset_after_check", ["C06"], LIB, """            let word = self.register;
            self.register = 0;
            self.num_bits = 0;
            let byte = Self::check_word(word)?;
            Ok(Some(byte))""", """            let word = self.register;
            let byte = Self::check_word(word)?;
            self.register = 0;
            self.num_bits = 0;
            Ok(Some(byte))""", "an invalid frame poisons the next one")
m("ps2_clear_forgets_register", ["C06"], LIB, """    pub fn clear(&mut self) {
        self.register = 0;
        self.num_bits = 0;
    }""", """    pub fn clear(&mut self) {
        self.num_bits = 0;
    }""", "clear() leaves stale bits in the register")
m("ps2_clear_forgets_count", ["C06"], LIB, """    pub fn clear(&mut self) {
        self.register = 0;
        self.num_bits = 0;
    }""", """    pub fn clear(&mut self) {
        self.register = 0;
    }""", "clear() leaves the bit counter running")
m("ps2_register_dirty_after_frame", ["C06"], LIB, """            let word = self.register;
            self.register = 0;
            self.num_bits = 0;""", """            let word = self.register;
            self.register &= 0x0400;
            self.num_bits = 0;""", "stop bit of a completed frame leaks into the next frame")
m("ps2_add_word_checks_register_too", ["C06"], LIB, """    pub fn add_word(&self, word: u16) -> Result<u8, Error> {
        Self::check_word(word)""", """    pub fn add_word(&self, word: u16) -> Result<u8, Error> {
        Self::check_word(word | (self.register & 0x0001))""", "whole-word decoding depends on a partial frame being held")
# ---- C08 / panics
m("set1_f0_enters_release", ["C08", "C02", "C07"], S1, """                    EXTENDED2_KEY_CODE => {
                        self.state = DecodeState::Extended2;
                        Ok(None)
                    }
                    0x80..=0xFF => {
                        // Break codes""", """                    EXTENDED2_KEY_CODE => {
                        self.state = DecodeState::Extended2;
                        Ok(None)
                    }
                    0xF0 => {
                        self.state = DecodeState::Release;
                        Ok(None)
                    }
                    0x80..=0xFF => {
                        // Break codes""", "Set 1 gains an F0 transition and reaches unimplemented!()")
m("set1_e1_break_pattern_underflow", ["C08", "C02"], S1, """            DecodeState::Extended2 => {
                self.state = DecodeState::Start;
                match code {
                    0x80..=0xFF => {""", """            DecodeState::Extended2 => {
                self.state = DecodeState::Start;
                match code {
                    0x7F..=0xFF => {""", "break pattern one too wide: code - 0x80 underflows on E1 7F")
m("ps2_counter_runs_after_bad_start", ["C08", "C06"], LIB, """        self.register |= (bit as u16) << self.num_bits;
        self.num_bits += 1;
        if self.num_bits == KEYCODE_BITS {""", """        self.register |= (bit as u16) << self.num_bits;
        self.num_bits += 1;
        if self.num_bits == 1 && bit && self.register & 0x8000 != 0 {
            self.num_bits = 12;
        }
        if self.num_bits == KEYCODE_BITS {""", "placeholder-never-kept")
m("us104_ctrl_digit_unwrap", ["C08"], "src/layouts/us104.rs", "            KeyCode::Key2 => {", "            KeyCode::Key2 if modifiers.is_ctrl() && modifiers.is_altgr() && modifiers.rctrl2 => {\n                DecodedKey::Unicode(char::from_u32(0xD800 + modifiers.capslock as u32).unwrap())\n            }\n            KeyCode::Key2 => {", "a layout arm unwraps an invalid char on a rare modifier combination")
# ---- C14 / event decoder
m("layout_gets_constant_mode", ["C14"], LIB, """                    .map_keycode(c, &self.modifiers, self.handle_ctrl),""", """                    .map_keycode(c, &self.modifiers, HandleControl::MapLettersToUnicode),""", "Ctrl-handling mode not passed through")
m("keyboard_set_ctrl_not_forwarded", ["C14", "C18"], LIB, """    pub fn set_ctrl_handling(&mut self, new_value: HandleControl) {
        self.event_decoder.set_ctrl_handling(new_value);
    }""", """    pub fn set_ctrl_handling(&mut self, new_value: HandleControl) {
        let _ = new_value;
    }""", "Keyboard::set_ctrl_handling is a no-op")
m("singleshot_consults_layout", ["C14"], LIB, """            _ => None,
        }
    }

    /// Change the keyboard layout.""", """            KeyEvent {
                code: c,
                state: KeyState::SingleShot,
            } => Some(
                self.layout
                    .map_keycode(c, &self.modifiers, self.handle_ctrl),
            ),
            _ => None,
        }
    }

    /// Change the keyboard layout.""", "one-shot events yield a decoded key")
m("raltgr_down_yields_none", ["C14"], LIB, """                self.modifiers.ralt = true;
                Some(DecodedKey::RawKey(KeyCode::RAltGr))""", """                self.modifiers.ralt = true;
                None""", "a modifier press yields nothing")
m("layout_sees_stale_numlock", ["C14", "C04"], LIB, """            } => Some(
                self.layout
                    .map_keycode(c, &self.modifiers, self.handle_ctrl),
            ),
            _ => None,""", """            } => {
                let mut m = self.modifiers.clone();
                m.rctrl2 = false;
                Some(self.layout.map_keycode(c, &m, self.handle_ctrl))
            }
            _ => None,""", "layout handed a doctored copy of the modifiers")
m("change_layout_deferred", ["C14"], LIB, """    pub fn change_layout(&mut self, new_layout: L) {
        self.layout = new_layout;
    }""", """    pub fn change_layout(&mut self, new_layout: L) {
        if !self.modifiers.is_shifted() {
            self.layout = new_layout;
        }
    }""", "layout change silently dropped while Shift is held")
# ---- C18 / Keyboard wiring
m("kb_add_word_swallows_error", ["C18", "C05"], LIB, """        let byte = self.ps2_decoder.add_word(word)?;
        self.add_byte(byte)""", """        let byte = self.ps2_decoder.add_word(word).unwrap_or(0xFF);
        self.add_byte(byte)""", "rejected frame reaches the scancode stage as FF")
m("kb_add_bit_error_disturbs_prefix", ["C18"], LIB, """        if let Some(byte) = self.ps2_decoder.add_bit(bit)? {
            self.scancode_set.advance_state(byte)
        } else {
            Ok(None)
        }""", """        match self.ps2_decoder.add_bit(bit) {
            Ok(Some(byte)) => self.scancode_set.advance_state(byte),
            Ok(None) => Ok(None),
            Err(e) => {
                let _ = self.scancode_set.advance_state(0xFF);
                Err(e)
            }
        }""", "a rejected frame resets the scancode prefix state")
m("kb_process_keyevent_clears_framer", ["C18"], LIB, """    pub fn process_keyevent(&mut self, ev: KeyEvent) -> Option<DecodedKey> {
        self.event_decoder.process_keyevent(ev)
    }
}""", """    pub fn process_keyevent(&mut self, ev: KeyEvent) -> Option<DecodedKey> {
        self.ps2_decoder.clear();
        self.event_decoder.process_keyevent(ev)
    }
}""", "the consumer side touches the bit framing")
m("kb_add_byte_clears_framer", ["C18"], LIB, """    pub fn add_byte(&mut self, byte: u8) -> Result<Option<KeyEvent>, Error> {
        self.scancode_set.advance_state(byte)""", """    pub fn add_byte(&mut self, byte: u8) -> Result<Option<KeyEvent>, Error> {
        self.ps2_decoder.clear();
        self.scancode_set.advance_state(byte)""", "the byte path touches the bit framing")
m("kb_set_ctrl_clears_framer", ["C18"], LIB, """    pub fn set_ctrl_handling(&mut self, new_value: HandleControl) {
        self.event_decoder.set_ctrl_handling(new_value);
    }""", """    pub fn set_ctrl_handling(&mut self, new_value: HandleControl) {
        self.ps2_decoder.clear();
        self.event_decoder.set_ctrl_handling(new_value);
    }""", "a configuration call touches the bit framing")


# ---- long-horizon defects (need the marathon stratum)
m2("ps2_frame_counter_overflow", ["C08", "C06"], [
    (LIB, "pub struct Ps2Decoder {\n    register: u16,\n    num_bits: u8,\n}", "pub struct Ps2Decoder {\n    register: u16,\n    num_bits: u8,\n    frames: u8,\n}"),
    (LIB, "        Ps2Decoder {\n            register: 0,\n            num_bits: 0,\n        }", "        Ps2Decoder {\n            register: 0,\n            num_bits: 0,\n            frames: 0,\n        }"),
    (LIB, "            let word = self.register;\n            self.register = 0;\n            self.num_bits = 0;", "            let word = self.register;\n            self.register = 0;\n            self.num_bits = 0;\n            self.frames += 1;"),
], "a diagnostics counter of completed frames overflows its u8 after 255 frames")
m2("ps2_every_200th_frame_lost", ["C06", "C05"], [
    (LIB, "pub struct Ps2Decoder {\n    register: u16,\n    num_bits: u8,\n}", "pub struct Ps2Decoder {\n    register: u16,\n    num_bits: u8,\n    frames: u16,\n}"),
    (LIB, "        Ps2Decoder {\n            register: 0,\n            num_bits: 0,\n        }", "        Ps2Decoder {\n            register: 0,\n            num_bits: 0,\n            frames: 0,\n        }"),
    (LIB, "            let word = self.register;\n            self.register = 0;\n            self.num_bits = 0;", "            let word = self.register;\n            self.register = 0;\n            self.num_bits = 0;\n            self.frames = self.frames.wrapping_add(1);\n            if self.frames % 200 == 0 {\n                return Ok(None);\n            }"),
], "every 200th completed frame is silently swallowed")
m2("events_capslock_third_toggle_skipped", ["C04"], [
    (LIB, "    handle_ctrl: HandleControl,\n    modifiers: Modifiers,\n    layout: L,\n}", "    handle_ctrl: HandleControl,\n    modifiers: Modifiers,\n    layout: L,\n    caps_presses: u8,\n}"),
    (LIB, "            layout,\n        }\n    }\n\n    /// Change the Ctrl key mapping.\n    pub fn set_ctrl_handling(&mut self, new_value: HandleControl) {\n        self.handle_ctrl = new_value;", "            layout,\n            caps_presses: 0,\n        }\n    }\n\n    /// Change the Ctrl key mapping.\n    pub fn set_ctrl_handling(&mut self, new_value: HandleControl) {\n        self.handle_ctrl = new_value;"),
    (LIB, "                self.modifiers.capslock = !self.modifiers.capslock;\n                Some(DecodedKey::RawKey(KeyCode::CapsLock))", "                self.caps_presses = self.caps_presses.wrapping_add(1);\n                if self.caps_presses % 64 != 0 {\n                    self.modifiers.capslock = !self.modifiers.capslock;\n                }\n                Some(DecodedKey::RawKey(KeyCode::CapsLock))"),
], "every 64th CapsLock press does not toggle (hidden counter)")

SPECIAL = {
 # full replacement for the Set 1 Extended arm (reset after lookup)
 "set1_ext_reset_after_lookup": [(S1, """            DecodeState::Extended => {
                self.state = DecodeState::Start;
                match code {
                    0x80..=0xFF => {
                        // Extended break codes
                        Ok(Some(KeyEvent::new(
                            Self::map_extended_scancode(code - 0x80)?,
                            KeyState::Up,
                        )))
                    }
                    _ => {
                        // Extended make codes
                        Ok(Some(KeyEvent::new(
                            Self::map_extended_scancode(code)?,
                            KeyState::Down,
                        )))
                    }
                }
            }""", """            DecodeState::Extended => {
                let ev = match code {
                    0x80..=0xFF => {
                        // Extended break codes
                        KeyEvent::new(Self::map_extended_scancode(code - 0x80)?, KeyState::Up)
                    }
                    _ => {
                        // Extended make codes
                        KeyEvent::new(Self::map_extended_scancode(code)?, KeyState::Down)
                    }
                };
                self.state = DecodeState::Start;
                Ok(Some(ev))
            }""", 1)],
}
DROP = {"ps2_counter_runs_after_bad_start"}

def sh(cmd, cwd=None):
    return subprocess.run(cmd, shell=True, cwd=cwd, capture_output=True, text=True)

def main():
    out = os.path.join(os.path.dirname(os.path.abspath(__file__)), "mutants")
    os.makedirs(out, exist_ok=True)
    wt = tempfile.mkdtemp(prefix="pcmut-")
    os.rmdir(wt)
    r = sh(f"git -C /repo worktree add -q --detach {wt}")
    assert r.returncode == 0, r.stderr
    kept = dropped = 0
    try:
        for name, breaks, edits, why in M:
            if name in DROP:
                continue
            edits = SPECIAL.get(name, edits)
            sh("git checkout -q -- .", cwd=wt)
            ok = True
            for f, old, new, count in edits:
                p = os.path.join(wt, f)
                s = open(p).read()
                if s.count(old) < 1:
                    print(f"SKIP {name}: pattern not found in {f}"); ok = False; break
                s = s.replace(old, new, count)
                open(p, "w").write(s)
            if not ok:
                dropped += 1; continue
            t = sh("CARGO_NET_OFFLINE=true cargo test --offline --quiet 2>&1 | tail -5", cwd=wt)
            passed = "test result: ok" in t.stdout and "FAILED" not in t.stdout and "error" not in t.stdout
            if not passed:
                print(f"DROP {name}: does not compile or fails the pinned tests"); dropped += 1
                pp = os.path.join(out, name + ".patch")
                if os.path.exists(pp): os.remove(pp)
                continue
            d = sh("git diff", cwd=wt).stdout
            with open(os.path.join(out, name + ".patch"), "w") as fh:
                fh.write(f"# mutant: {name}\n# breaks: {' '.join(breaks)}\n# what: {why}\n# compiles and passes the 32 pinned tests (checked by make_mutants.py)\n")
                fh.write(d)
            print(f"KEEP {name}: breaks {' '.join(breaks)}"); kept += 1
    finally:
        sh(f"git -C /repo worktree remove --force {wt}")
        shutil.rmtree(wt, ignore_errors=True)
    print(f"{kept} mutants kept, {dropped} dropped")

if __name__ == "__main__":
    main()
