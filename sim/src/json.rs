//! Minimal JSON writer for the evidence files (the harness has no dependencies).
use std::collections::BTreeMap;

#[derive(Clone, Debug)]
pub enum J {
    Null,
    Bool(bool),
    Int(i128),
    Num(f64),
    Str(String),
    Arr(Vec<J>),
    Obj(Vec<(String, J)>),
}

impl J {
    pub fn obj() -> J {
        J::Obj(Vec::new())
    }
    pub fn s(x: &str) -> J {
        J::Str(x.to_string())
    }
    pub fn u(x: u64) -> J {
        J::Int(x as i128)
    }
    pub fn set(&mut self, k: &str, v: J) -> &mut J {
        if let J::Obj(o) = self {
            if let Some(e) = o.iter_mut().find(|(kk, _)| kk == k) {
                e.1 = v;
            } else {
                o.push((k.to_string(), v));
            }
        }
        self
    }
    pub fn from_counts(m: &BTreeMap<String, u64>) -> J {
        J::Obj(m.iter().map(|(k, v)| (k.clone(), J::u(*v))).collect())
    }
    pub fn strs(xs: &[&str]) -> J {
        J::Arr(xs.iter().map(|x| J::s(x)).collect())
    }
    pub fn render(&self) -> String {
        let mut out = String::new();
        self.write(&mut out, 0);
        out.push('\n');
        out
    }
    fn write(&self, out: &mut String, ind: usize) {
        match self {
            J::Null => out.push_str("null"),
            J::Bool(b) => out.push_str(if *b { "true" } else { "false" }),
            J::Int(i) => out.push_str(&i.to_string()),
            J::Num(f) => {
                if f.is_finite() {
                    out.push_str(&format!("{:.3}", f))
                } else {
                    out.push_str("0.0")
                }
            }
            J::Str(s) => {
                out.push('"');
                for c in s.chars() {
                    match c {
                        '"' => out.push_str("\\\""),
                        '\\' => out.push_str("\\\\"),
                        '\n' => out.push_str("\\n"),
                        '\t' => out.push_str("\\t"),
                        '\r' => out.push_str("\\r"),
                        c if (c as u32) < 0x20 => out.push_str(&format!("\\u{:04x}", c as u32)),
                        c => out.push(c),
                    }
                }
                out.push('"');
            }
            J::Arr(a) => {
                if a.is_empty() {
                    out.push_str("[]");
                    return;
                }
                let simple = a.iter().all(|x| matches!(x, J::Int(_) | J::Num(_) | J::Bool(_)));
                if simple {
                    out.push('[');
                    for (i, x) in a.iter().enumerate() {
                        if i > 0 {
                            out.push_str(", ");
                        }
                        x.write(out, ind);
                    }
                    out.push(']');
                    return;
                }
                out.push_str("[\n");
                for (i, x) in a.iter().enumerate() {
                    out.push_str(&" ".repeat(ind + 1));
                    x.write(out, ind + 1);
                    if i + 1 < a.len() {
                        out.push(',');
                    }
                    out.push('\n');
                }
                out.push_str(&" ".repeat(ind));
                out.push(']');
            }
            J::Obj(o) => {
                if o.is_empty() {
                    out.push_str("{}");
                    return;
                }
                out.push_str("{\n");
                for (i, (k, v)) in o.iter().enumerate() {
                    out.push_str(&" ".repeat(ind + 1));
                    J::Str(k.clone()).write(out, ind + 1);
                    out.push_str(": ");
                    v.write(out, ind + 1);
                    if i + 1 < o.len() {
                        out.push(',');
                    }
                    out.push('\n');
                }
                out.push_str(&" ".repeat(ind));
                out.push('}');
            }
        }
    }
}
