//! FULL scenarios on the combined `Keyboard`: an interrupt handler feeding bits,
//! words or bytes, a watchdog calling clear(), a main loop draining the event
//! queue with process_keyevent, and a configuration task - all interleaved by
//! the seeded scheduler, with wire, byte and event faults.
//!   C18: Keyboard == its three stages wired by hand (mirror), and the decoded
//!        output does not depend on how the input side and the consumer side
//!        are interleaved (schedule independence).
//!   C08: no operation panics, on any object, for any argument, in any order.
use crate::cover::Cov;
use crate::dynobj::*;
use crate::keys::*;
use crate::model::*;
use crate::op::*;
use crate::rng::{LogHash, Rng};
use crate::scen::*;
use crate::typist::*;
use crate::world::*;
use pc_keyboard::{DecodedKey, EventDecoder, KeyCode, KeyEvent, KeyState, Keyboard, KeyboardLayout, Ps2Decoder, ScancodeSet};
use std::collections::VecDeque;

const US: u64 = 1_000;

pub struct Full;

#[derive(Clone, Debug, PartialEq)]
enum Consumer {
    /// process the k-th event the input side produced
    Queued(usize),
    Direct(KeyEvent),
    SetCtrl(bool),
}

/// what the spy scancode set (dynobj::SpySet) makes of its inner decoder's answer
fn spy_quirk(spying: bool, b: u8, r: Res) -> Res {
    if spying && b == 0xFE && matches!(r, Res::Err(_)) {
        Res::Err(pc_keyboard::Error::ParityError)
    } else {
        r
    }
}

fn dk_hash(d: &Option<DecodedKey>) -> u64 {
    match d {
        None => 0,
        Some(DecodedKey::RawKey(k)) => 1000 + kidx(*k) as u64,
        Some(DecodedKey::Unicode(c)) => 100_000 + *c as u64,
        #[allow(unreachable_patterns)]
        Some(_) => 7,
    }
}

/// The mirror: three real stage objects wired by hand. EventDecoder has no
/// modifier getter, so next to it a second `Keyboard` is fed the same events and
/// asked for nothing but get_modifiers(); its other stages are never touched.
struct Mirror {
    ps2: Ps2Decoder,
    set: DynSet,
    /// the event stage proper: results of process_keyevent and the Ctrl mode
    ed: EventDecoder<DynLayout>,
    /// modifier state only (fed events, never asked anything else)
    ev: KbAny,
}

impl Scenario for Full {
    fn id(&self) -> &'static str {
        "C18"
    }
    fn level(&self) -> &'static str {
        "exploration"
    }
    fn runs(&self, tier: Tier) -> u64 {
        match tier {
            Tier::Quick => 300_000,
            Tier::Thorough => 30_000_000,
        }
    }
    fn declare(&self, cov: &mut Cov) {
        cov.declare("opkind_bigram_x_bits_pending_x_prefix_ctx_x_modifier_held", 8 * 8 * 11 * 6 * 2);
        cov.declare("bits_pending_x_prefix_ctx_at_event_stage_call", 11 * 6);
        cov.declare("bits_pending_x_modifier_state_at_clear", 11 * 512);
        // distinct interleavings: hash of the run's sequence of operation kinds (which task ran
        // at each step), folded into 2^24 cells - the count is a lower bound on distinct schedules
        cov.declare("distinct_schedules_hashed_into_2p24", 1 << 24);
        for k in ["flip1", "flip2", "flip3plus", "drop_edge", "extra_edge", "truncate", "noise_frame", "stray_edge", "garbage_byte", "phantom_event", "dup_frame"] {
            cov.fault_declare(k);
        }
        for p in [
            "obs_rejected_frame_while_prefix_pending",
            "obs_rejected_frame_while_modifier_held",
            "obs_clear_while_prefix_pending_and_modifier_held",
            "clear_with_partial_frame",
            "obs_process_keyevent_between_two_bits_of_a_frame",
            "setctrl_between_two_bits_of_a_frame",
            "add_byte_between_two_bits_of_a_frame",
            "ingestion_path_switched_mid_run",
            "sixteen_bit_word_through_add_word",
            "user_supplied_scancode_set_behind_keyboard",
            "obs_three_or_more_events_queued",
            "obs_schedule_independence_checked",
            "obs_reinterleaving_moved_a_consumer_action",
        ] {
            cov.probe_declare(p);
        }
    }

    fn generate(&self, rng: &mut Rng, run: u64, tier: Tier) -> Trace {
        let mut cfg = Cfg::default();
        cfg.set = if run % 2 == 0 { 2 } else { 1 };
        cfg.xt = false;
        cfg.layout = ((run / 2) % NLAYOUT_OBJS as u64) as u8;
        cfg.map = rng.bool();
        cfg.seed2 = rng.next();
        cfg.obj = if (run / 2) % 8 == 5 { 1 } else { 0 };
        let rate_class = ((run / 2) % 4) as u8;
        cfg.rate = rate_class;
        let rate_pct = [0u64, 2, 10, 30][rate_class as usize];
        let period = rng.range(60, 100) * US;
        let timeout = period * *rng.pick(&[3u64, 4, 10, 20, 40]) / 2 * rng.range(50, 200) / 100;
        // main-loop lag knob: how eagerly the consumer runs relative to the input
        let lag = *rng.pick(&[0u64, 1, 3, 10, 40]);
        let style = STYLES[((run / 8) % STYLES.len() as u64) as usize];
        let p = TypistParams { style, actions: marathon(run, rng.range(4, if tier == Tier::Quick { 40 } else { 100 }) as usize), stratum: ((run % 3) as u8, ((run / 3) % 16) as u8) };
        let session = type_session(rng, &cfg, &p);
        let fault_limit = session.len() * 2 / 3;
        let mut path: u8 = rng.below(3) as u8; // 0 bit, 1 word, 2 byte
        // a correlated fault: for a stretch every frame arrives with its parity bit inverted
        let bad_parity_stretch: Option<(usize, usize)> = if rate_pct > 0 && rng.chance(1, 12) {
            let len = match rng.below(3) {
                0 => rng.range(30, 45),
                1 => rng.range(250, 262),
                _ => rng.range(258, 400),
            } as usize;
            Some((rng.below(fault_limit.max(1) as u64) as usize, len))
        } else {
            None
        };
        let mut stretch_left = 0usize;
        let mut ops: Vec<TOp> = Vec::new();
        let mut last_edge = 0u64;
        let mut pending_polls = 0u64;
        for (si, sop) in session.iter().enumerate() {
            let bytes = match sop.op {
                Op::Key { pfx, code, brk, .. } => host_bytes(&cfg, pfx, code, brk),
                _ => continue,
            };
            let mut t = sop.t.max(last_edge + period);
            let faulty_zone = si < fault_limit && rate_pct > 0;
            if t - last_edge > timeout && !ops.is_empty() {
                ops.push(TOp { t: last_edge + timeout, op: Op::Clear });
            }
            if rng.chance(4, 100) {
                path = rng.below(3) as u8;
            }
            if rng.chance(4, 100) {
                ops.push(TOp { t, op: Op::SetCtrl { map: rng.bool() } });
            }
            if let Some((at, len)) = bad_parity_stretch {
                if si == at {
                    stretch_left = len;
                }
            }
            for b in bytes {
                if stretch_left > 0 {
                    stretch_left -= 1;
                    ops.push(TOp { t, op: Op::Frame { sent: b, fault: WFault::Flip(1 << 9), via: if path == 1 { Via::Word } else { Via::Bit } } });
                    t += 11 * period;
                    last_edge = t;
                    continue;
                }
                let is_prefix = matches!(b, 0xE0 | 0xE1 | 0xF0);
                let mut fault = WFault::None;
                let mut extra_after: Vec<Op> = Vec::new();
                let mut skip = false;
                // faults are aimed at in-flight state: right after a prefix byte the odds triple
                let odds = if is_prefix { rate_pct * 3 } else { rate_pct };
                if faulty_zone && rng.chance(odds.min(90), 100) {
                    match rng.below(12) {
                        0 => fault = WFault::Flip(1 << rng.below(11)),
                        1 => fault = WFault::Flip((1 << rng.below(11)) | (1 << rng.below(11))),
                        2 => fault = WFault::Flip((rng.below(0x7FF) as u16 + 1) & 0x7FF),
                        3 => fault = WFault::DropEdge(rng.below(11) as u8),
                        4 => fault = WFault::ExtraEdge(rng.below(12) as u8, rng.bool()),
                        5 => fault = WFault::Trunc(rng.below(11) as u8),
                        6 => {
                            // line noise; a jammed line repeats the same word; a line stuck high or
                            // low (unplugged, shorted) reads all ones or all zeros for a while
                            let w = match rng.below(4) {
                                0 => 0x7FF,
                                1 => 0x000,
                                _ => rng.below(2048) as u16,
                            };
                            let via = if rng.bool() { Via::Bit } else { Via::Word };
                            let n = if rng.chance(1, 1500) {
                                rng.range(65_530, 66_200) // unplugged for a minute: past the 16-bit mark
                            } else if rng.chance(1, 2) {
                                rng.range(2, 6)
                            } else {
                                1
                            };
                            for _ in 0..n {
                                extra_after.push(Op::Noise { word: w, via });
                            }
                        }
                        7 => extra_after.push(Op::Edge { bit: rng.bool() }),
                        8 => match rng.below(5) {
                            // protocol traffic that is not key data (power-cycle AA, overrun 00, FA/FE,
                            // reset and identify replies), as bytes or as frames
                            0 | 1 => {
                                let seq: &[u8] = *rng.pick(&[&[0xAA][..], &[0x00], &[0xFA], &[0xFE], &[0xFA, 0xAA], &[0xAA, 0xFA, 0xAB, 0x83], &[0xFA, 0xAB, 0x83], &[0xEE], &[0xFC]]);
                                let as_frames = rng.bool();
                                let via = if rng.bool() { Via::Bit } else { Via::Word };
                                for pb in seq {
                                    extra_after.push(if as_frames { Op::Frame { sent: *pb, fault: WFault::None, via } } else { Op::Byte { b: *pb } });
                                }
                            }
                            // a host that hands add_word a raw 16-bit capture (idle-high line above
                            // the frame, all ones, anything)
                            2 => extra_after.push(Op::Word16 { w: match rng.below(4) {
                                0 => 0xFFFF,
                                1 => 0xF800 | crate::model::bits_word(&crate::model::encode_frame(b)),
                                2 => 0x0800 | crate::model::bits_word(&crate::model::encode_frame(b)),
                                _ => (rng.next() >> 48) as u16,
                            } }),
                            _ => extra_after.push(Op::Byte { b: rng.byte() }),
                        },
                        9 => extra_after.push(Op::Ev { key: rng.below(NKEYS as u64) as u8, st: rng.below(3) as u8 }),
                        10 => extra_after.push(Op::Clear),
                        _ => {
                            if rng.bool() {
                                skip = true; // frame lost entirely
                            } else {
                                extra_after.push(Op::Frame { sent: b, fault: WFault::None, via: Via::Bit }); // resend
                            }
                        }
                    }
                }
                if !skip {
                    let op = match path {
                        2 if fault == WFault::None => Op::Byte { b },
                        1 if matches!(fault, WFault::None | WFault::Flip(_)) => Op::Frame { sent: b, fault, via: Via::Word },
                        _ => Op::Frame { sent: b, fault, via: Via::Bit },
                    };
                    ops.push(TOp { t, op });
                    t += 11 * period;
                    if matches!(fault, WFault::Flip(_)) && rng.chance(1, 3) {
                        // the resend meets the same bad line: the identical damaged frame again
                        ops.push(TOp { t, op });
                        t += 11 * period;
                    }
                    if matches!(fault, WFault::Flip(_)) && rng.chance(1, 3) {
                        // protocol traffic after a damaged frame: the device answers the host's
                        // resend request (FA ack, FE resend, FC/EE/00/AA), then sends the byte again
                        let pb = *rng.pick(&[0xFAu8, 0xFE, 0xFA, 0xFE, 0xFC, 0xEE, 0x00, 0xAA]);
                        ops.push(TOp { t, op: Op::Frame { sent: pb, fault: WFault::None, via: if path == 1 { Via::Word } else { Via::Bit } } });
                        t += 11 * period;
                        ops.push(TOp { t, op: Op::Frame { sent: b, fault: WFault::None, via: if path == 1 { Via::Word } else { Via::Bit } } });
                        t += 11 * period;
                    }
                }
                for e in extra_after {
                    ops.push(TOp { t, op: e });
                    t += period;
                }
                last_edge = t;
                // the main loop polls with a lag
                pending_polls += 1;
                if lag == 0 || rng.below(lag + 1) == 0 {
                    for _ in 0..pending_polls.min(6) {
                        ops.push(TOp { t, op: Op::Pev });
                    }
                    pending_polls = 0;
                }
            }
        }
        let t_end = ops.last().map(|o| o.t).unwrap_or(0) + 50 * MS;
        ops.push(TOp { t: t_end, op: Op::Clear });
        for _ in 0..48 {
            ops.push(TOp { t: t_end, op: Op::Pev });
        }
        // a stratum of runs interleaves at single-bit granularity: the main loop and the
        // config task run between two bits of a frame
        if (run / 16) % 4 == 0 {
            let mut fine: Vec<TOp> = Vec::new();
            for o in ops {
                match o.op {
                    Op::Frame { sent, fault, via: Via::Bit } => {
                        let bits = apply_wfault(sent, fault);
                        for (j, bit) in bits.iter().enumerate() {
                            fine.push(TOp { t: o.t + j as u64 * period, op: Op::Edge { bit: *bit } });
                            if rng.chance(1, 12) {
                                let extra = match rng.below(4) {
                                    0 => Op::Pev,
                                    1 => Op::SetCtrl { map: rng.bool() },
                                    2 => Op::Ev { key: rng.below(NKEYS as u64) as u8, st: rng.below(3) as u8 },
                                    _ => Op::Pev,
                                };
                                fine.push(TOp { t: o.t + j as u64 * period, op: extra });
                            }
                        }
                    }
                    _ => fine.push(o),
                }
            }
            ops = fine;
        }
        Trace { prop: "C18".into(), cfg, ops, seed: 0, run, expect: None }
    }

    fn execute(&self, trace: &Trace, env: &mut Env) -> Outcome {
        let cfg = &trace.cfg;
        let lay = cfg.layout as usize % NLAYOUT_OBJS;
        let mut h = LogHash::new();
        // in one batch out of eight the scancode stage behind the Keyboard is a user-supplied
        // set (a spy around the real decoder) that records every byte it is handed
        let spy_seen: std::rc::Rc<std::cell::RefCell<Vec<u8>>> = std::rc::Rc::new(std::cell::RefCell::new(Vec::new()));
        let spying = cfg.obj == 1;
        let mut kb = if spying {
            KbAny::with_spy(cfg.set, DynLayout::object(lay), hc(cfg.map), spy_seen.clone())
        } else {
            KbAny::new(cfg.set, DynLayout::object(lay), hc(cfg.map))
        };
        let mut mirror_bytes: u64 = 0; // bytes the hand-wired scancode stage was fed
        let mut mirror_last: u8 = 0;
        let mut spy_checked: usize = 0;
        let mut mir = Mirror {
            ps2: Ps2Decoder::new(),
            set: DynSet::new(cfg.set),
            ed: EventDecoder::new(DynLayout::object(lay), hc(cfg.map)),
            ev: KbAny::new(cfg.set, DynLayout::object(lay), hc(cfg.map)),
        };
        // coverage-only models
        let mut fr = RefFramer::new();
        let mut m2 = RefSet2::new();
        let mut m1 = RefSet1::new();
        let mut queue: VecDeque<(usize, KeyEvent)> = VecDeque::new();
        let mut produced: Vec<KeyEvent> = Vec::new();
        let mut consumer_log: Vec<(Consumer, Option<DecodedKey>)> = Vec::new();
        let mut input_ops: Vec<Op> = Vec::new();
        let mut violation: Option<Violation> = None;
        let mut any_fault = false;
        let mut last_t = 0;
        let mut prev_kind: usize = 7;
        let mut last_path: Option<u8> = None;
        let mut sched = LogHash::new();

        macro_rules! fail {
            ($l:lifetime, $i:expr, $oracle:expr, $($arg:tt)*) => {{
                violation = Some(Violation { oracle: $oracle.to_string(), op_index: $i, detail: format!($($arg)*) });
                break $l;
            }};
        }
        fn kind8(op: &Op) -> usize {
            match op {
                Op::Frame { via: Via::Bit, .. } | Op::Edge { .. } | Op::Noise { via: Via::Bit, .. } => 0,
                Op::Frame { via: Via::Word, .. } | Op::Noise { via: Via::Word, .. } | Op::Word16 { .. } => 1,
                Op::Byte { .. } => 2,
                Op::Pev => 3,
                Op::Ev { .. } => 4,
                Op::Clear => 5,
                Op::SetCtrl { .. } => 6,
                _ => 7,
            }
        }

        'ops: for (i, top) in trace.ops.iter().enumerate() {
            env.cur_op = i;
            last_t = top.t.max(last_t);
            let k8 = kind8(&top.op);
            let ctx = if cfg.set == 2 { m2.ctx as usize } else { m1.ctx as usize };
            let pend = fr.pending();
            let mods_now = kb.get_modifiers().clone();
            let mod_held = mods_now.lshift || mods_now.rshift || mods_now.lctrl || mods_now.rctrl || mods_now.lalt || mods_now.ralt || mods_now.rctrl2;
            env.cov.hit("opkind_bigram_x_bits_pending_x_prefix_ctx_x_modifier_held", (((prev_kind * 8 + k8) * 11 + pend) * 6 + ctx) * 2 + mod_held as usize);
            prev_kind = k8;
            h.mix(k8 as u64);
            sched.mix(k8 as u64 + 1);
            // results of this op from Keyboard and from the mirror, as comparable strings of hashes
            let mut feed_byte_models = |b: u8, m2: &mut RefSet2, m1: &mut RefSet1| {
                if cfg.set == 2 {
                    m2.advance(env.tables, b);
                } else {
                    m1.advance(env.tables, b);
                }
            };
            match top.op {
                Op::Frame { .. } | Op::Noise { .. } | Op::Edge { .. } => {
                    input_ops.push(top.op);
                    let (bits, via) = match top.op {
                        Op::Frame { sent, fault, via } => {
                            let fired = match fault {
                                WFault::None => false,
                                WFault::Flip(m) => m & 0x7FF != 0,
                                _ => true,
                            };
                            if fired {
                                env.cov.fault(wfault_name(&fault));
                                any_fault = true;
                            }
                            (apply_wfault(sent, fault), via)
                        }
                        Op::Noise { word, via } => {
                            env.cov.fault("noise_frame");
                            any_fault = true;
                            (word_bits(word & 0x7FF).to_vec(), via)
                        }
                        Op::Edge { bit } => (vec![bit], Via::Bit),
                        _ => unreachable!(),
                    };
                    let p = if via == Via::Word && bits.len() == 11 { 1u8 } else { 0 };
                    if let Some(lp) = last_path {
                        if lp != p {
                            env.cov.probe("ingestion_path_switched_mid_run");
                        }
                    }
                    last_path = Some(p);
                    if p == 1 {
                        let w = bits_word(&bits);
                        let rk = Res::of(&kb.add_word(w));
                        let rm = match mir.ps2.add_word(w) {
                            Err(e) => Res::Err(e),
                            Ok(b) => {
                                feed_byte_models(b, &mut m2, &mut m1);
                                mirror_bytes += 1;
                                mirror_last = b;
                                spy_quirk(spying, b, Res::of(&mir.set.advance_state(b)))
                            }
                        };
                        env.cov.api_calls += 3;
                        env.cov.evaluations += 1;
                        h.mix(rk.hash());
                        if matches!(rk, Res::Err(e) if e != pc_keyboard::Error::UnknownKeyCode) {
                            if ctx != 0 {
                                env.cov.probe("obs_rejected_frame_while_prefix_pending");
                            }
                            if mod_held {
                                env.cov.probe("obs_rejected_frame_while_modifier_held");
                            }
                        }
                        if rk != rm {
                            fail!('ops, i, "mirror-of-three-stages", "Keyboard::add_word({:03X}) returned {}, the hand-wired stages return {}", w, rk.show(), rm.show());
                        }
                        if let Res::Ev(k, s) = rk {
                            queue.push_back((produced.len(), KeyEvent::new(k, s)));
                            produced.push(KeyEvent::new(k, s));
                        }
                    } else {
                        for bit in bits {
                            let rk = Res::of(&kb.add_bit(bit));
                            let rm = match mir.ps2.add_bit(bit) {
                                Err(e) => Res::Err(e),
                                Ok(None) => Res::Pending,
                                Ok(Some(b)) => {
                                    feed_byte_models(b, &mut m2, &mut m1);
                                    mirror_bytes += 1;
                                mirror_last = b;
                                spy_quirk(spying, b, Res::of(&mir.set.advance_state(b)))
                                }
                            };
                            let _ = fr.add_bit(bit);
                            env.cov.api_calls += 3;
                            env.cov.evaluations += 1;
                            h.mix(rk.hash());
                            if matches!(rk, Res::Err(e) if e != pc_keyboard::Error::UnknownKeyCode) {
                                if ctx != 0 {
                                    env.cov.probe("obs_rejected_frame_while_prefix_pending");
                                }
                                if mod_held {
                                    env.cov.probe("obs_rejected_frame_while_modifier_held");
                                }
                            }
                            if rk != rm {
                                fail!('ops, i, "mirror-of-three-stages", "Keyboard::add_bit({}) returned {}, the hand-wired stages return {}", bit as u8, rk.show(), rm.show());
                            }
                            if let Res::Ev(k, s) = rk {
                                queue.push_back((produced.len(), KeyEvent::new(k, s)));
                                produced.push(KeyEvent::new(k, s));
                            }
                        }
                    }
                    if let Op::Edge { .. } = top.op {
                        if i > 0 && !matches!(trace.ops[i - 1].op, Op::Edge { .. } | Op::Frame { .. } | Op::Pev | Op::SetCtrl { .. } | Op::Ev { .. }) {
                            env.cov.fault("stray_edge");
                        }
                    }
                }
                Op::Word16 { w } => {
                    // any 16-bit value: the combined object and the bare frame decoder are the
                    // same code, so they must agree outside the documented precondition too
                    input_ops.push(top.op);
                    let rk = Res::of(&kb.add_word(w));
                    let rm = match mir.ps2.add_word(w) {
                        Err(e) => Res::Err(e),
                        Ok(b) => {
                            feed_byte_models(b, &mut m2, &mut m1);
                            mirror_bytes += 1;
                            mirror_last = b;
                            spy_quirk(spying, b, Res::of(&mir.set.advance_state(b)))
                        }
                    };
                    env.cov.api_calls += 3;
                    env.cov.evaluations += 1;
                    env.cov.probe("sixteen_bit_word_through_add_word");
                    h.mix(rk.hash());
                    if rk != rm {
                        // above bit 10 the frame check itself is unconstrained (C05's precondition), so a
                        // Keyboard that is stricter than the bare decoder there - answering with a framing
                        // error of its own - is tolerated; forwarding something the frame decoder rejected,
                        // or a different event, is not
                        let framing = |r: &Res| matches!(r, Res::Err(e) if *e != pc_keyboard::Error::UnknownKeyCode);
                        if w > 0x7FF && framing(&rk) {
                            env.cov.count("tolerated_stricter_keyboard_on_out_of_precondition_word", 1);
                            if !framing(&rm) {
                                // the mirror's scancode stage has consumed a byte the Keyboard never saw:
                                // the two are legitimately out of step, the run ends here
                                break 'ops;
                            }
                        } else {
                            fail!('ops, i, "mirror-of-three-stages", "Keyboard::add_word({:04X}) returned {}, the hand-wired stages return {}", w, rk.show(), rm.show());
                        }
                    }
                    if let Res::Ev(k, s) = rk {
                        queue.push_back((produced.len(), KeyEvent::new(k, s)));
                        produced.push(KeyEvent::new(k, s));
                    }
                }
                Op::Byte { b } => {
                    input_ops.push(top.op);
                    if pend != 0 {
                        env.cov.probe("add_byte_between_two_bits_of_a_frame");
                    }
                    if let Some(lp) = last_path {
                        if lp != 2 {
                            env.cov.probe("ingestion_path_switched_mid_run");
                        }
                    }
                    last_path = Some(2);
                    let rk = Res::of(&kb.add_byte(b));
                    feed_byte_models(b, &mut m2, &mut m1);
                    mirror_bytes += 1;
                    mirror_last = b;
                    let rm = spy_quirk(spying, b, Res::of(&mir.set.advance_state(b)));
                    env.cov.api_calls += 2;
                    env.cov.evaluations += 1;
                    h.mix(rk.hash());
                    if rk != rm {
                        fail!('ops, i, "mirror-of-three-stages", "Keyboard::add_byte({:02X}) returned {}, the scancode stage alone returns {}", b, rk.show(), rm.show());
                    }
                    if let Res::Ev(k, s) = rk {
                        queue.push_back((produced.len(), KeyEvent::new(k, s)));
                        produced.push(KeyEvent::new(k, s));
                    }
                }
                Op::Clear => {
                    input_ops.push(top.op);
                    env.cov.hit("bits_pending_x_modifier_state_at_clear", pend * 512 + mods_index(&mods_now));
                    if pend != 0 {
                        env.cov.probe("clear_with_partial_frame");
                    }
                    if ctx != 0 && mod_held {
                        env.cov.probe("obs_clear_while_prefix_pending_and_modifier_held");
                    }
                    kb.clear();
                    let _ = mir.ps2.clear();
                    fr.clear();
                    env.cov.api_calls += 2;
                }
                Op::Pev | Op::Ev { .. } => {
                    let (ev, cons) = match top.op {
                        Op::Pev => match queue.pop_front() {
                            Some((k, e)) => (e, Consumer::Queued(k)),
                            None => continue,
                        },
                        Op::Ev { key, st } => {
                            env.cov.fault("phantom_event");
                            any_fault = true;
                            let e = KeyEvent::new(ALL_KEYS[key as usize % NKEYS], STATES[st as usize % 3]);
                            (e.clone(), Consumer::Direct(e))
                        }
                        _ => unreachable!(),
                    };
                    if queue.len() >= 3 {
                        env.cov.probe("obs_three_or_more_events_queued");
                    }
                    if pend != 0 {
                        env.cov.probe("obs_process_keyevent_between_two_bits_of_a_frame");
                    }
                    env.cov.hit("bits_pending_x_prefix_ctx_at_event_stage_call", pend * 6 + ctx);
                    let dk = kb.process_keyevent(ev.clone());
                    let dm = mir.ed.process_keyevent(ev.clone());
                    let _ = mir.ev.process_keyevent(ev.clone());
                    env.cov.api_calls += 3;
                    env.cov.evaluations += 1;
                    h.mix(dk_hash(&dk));
                    if dk != dm {
                        fail!('ops, i, "mirror-of-three-stages", "Keyboard::process_keyevent({}({})) returned {:?}, the event stage alone returns {:?}", sname(ev.state), kname(ev.code), dk, dm);
                    }
                    consumer_log.push((cons, dk));
                }
                Op::SetCtrl { map } => {
                    if pend != 0 {
                        env.cov.probe("setctrl_between_two_bits_of_a_frame");
                    }
                    kb.set_ctrl_handling(hc(map));
                    mir.ed.set_ctrl_handling(hc(map));
                    env.cov.api_calls += 2;
                    consumer_log.push((Consumer::SetCtrl(map), None));
                }
                _ => continue,
            }
            if let Op::Byte { .. } = top.op {
                if i > 0 && trace.ops[i - 1].t != top.t && matches!(trace.ops[i - 1].op, Op::Frame { .. }) {
                    env.cov.fault("garbage_byte");
                    any_fault = true;
                }
            }
            if let (Op::Frame { sent: a, fault: WFault::None, .. }, Some(TOp { op: Op::Frame { sent: b2, .. }, .. })) = (top.op, if i > 0 { trace.ops.get(i - 1) } else { None }) {
                if a == *b2 {
                    env.cov.fault("dup_frame");
                }
            }
            // the scancode stage behind the Keyboard was handed exactly the bytes the hand-wired
            // one was: every accepted byte, nothing else, nothing twice, nothing skipped
            if spying {
                let seen = spy_seen.borrow();
                env.cov.evaluations += 1;
                env.cov.probe("user_supplied_scancode_set_behind_keyboard");
                if seen.len() as u64 != mirror_bytes || (seen.len() > spy_checked && *seen.last().unwrap() != mirror_last) {
                    fail!(
                        'ops,
                        i,
                        "mirror-of-three-stages",
                        "after {}: the scancode stage behind Keyboard has been handed {} bytes (last {:02X?}), the hand-wired one {} (last {:02X})",
                        op_show(&top.op),
                        seen.len(),
                        seen.last(),
                        mirror_bytes,
                        mirror_last
                    );
                }
                spy_checked = seen.len();
            }
            // after every operation: the observable event-stage state equals the mirror's
            env.cov.evaluations += 1;
            if kb.get_modifiers() != mir.ev.get_modifiers() {
                fail!(
                    'ops,
                    i,
                    "mirror-of-three-stages",
                    "after {}: Keyboard::get_modifiers() is [{}], the separately driven event stage has [{}]",
                    op_show(&top.op),
                    mods_show(kb.get_modifiers()),
                    mods_show(mir.ev.get_modifiers())
                );
            }
            if kb.get_ctrl_handling() != mir.ed.get_ctrl_handling() {
                fail!('ops, i, "mirror-of-three-stages", "after {}: get_ctrl_handling() differs from the separately driven event stage", op_show(&top.op));
            }
            if env.verbose {
                env.log.push(format!("op {} {} (bits pending {}, prefix ctx {}, mods [{}], queue {})", i, op_show(&top.op), fr.pending(), ctx, mods_show(kb.get_modifiers()), queue.len()));
            }
        }
        env.cov.hit("distinct_schedules_hashed_into_2p24", (sched.0 & 0xFF_FFFF) as usize);
        // (b) schedule independence: same inputs, same consumer actions, another interleaving
        if violation.is_none() && !consumer_log.is_empty() {
            env.cov.probe("obs_schedule_independence_checked");
            let mut rng = Rng::new(cfg.seed2 ^ 0x5EED_5EED);
            let mut kb2 = KbAny::new(cfg.set, DynLayout::object(lay), hc(cfg.map));
            let mut produced2: Vec<KeyEvent> = Vec::new();
            let mut checked2 = 0usize;
            let mut ii = 0usize;
            let mut ci = 0usize;
            let mut moved = false;
            let eager = rng.below(3); // 0: consumer as early as possible, 1: as late as possible, 2: random
            let last_op = trace.ops.len().saturating_sub(1);
            while ii < input_ops.len() || ci < consumer_log.len() {
                let enabled = ci < consumer_log.len()
                    && match &consumer_log[ci].0 {
                        Consumer::Queued(k) => *k < produced2.len(),
                        _ => true,
                    };
                let take_consumer = if ii >= input_ops.len() {
                    if !enabled {
                        violation = Some(Violation {
                            oracle: "schedule-independence".into(),
                            op_index: last_op,
                            detail: format!("re-interleaved execution produced only {} key events, the first execution produced at least {}", produced2.len(), produced.len()),
                        });
                        break;
                    }
                    true
                } else if !enabled {
                    false
                } else {
                    match eager {
                        0 => true,
                        1 => false,
                        _ => rng.bool(),
                    }
                };
                if take_consumer {
                    let (c, want) = &consumer_log[ci];
                    ci += 1;
                    let got = match c {
                        Consumer::Queued(k) => kb2.process_keyevent(produced2[*k].clone()),
                        Consumer::Direct(e) => kb2.process_keyevent(e.clone()),
                        Consumer::SetCtrl(m) => {
                            kb2.set_ctrl_handling(hc(*m));
                            None
                        }
                    };
                    env.cov.api_calls += 1;
                    env.cov.evaluations += 1;
                    if got != *want {
                        violation = Some(Violation {
                            oracle: "schedule-independence".into(),
                            op_index: last_op,
                            detail: format!(
                                "consumer action #{} ({:?}) yielded {:?} in the first execution and {:?} when the input side and the consumer side were interleaved differently (policy {})",
                                ci - 1,
                                c,
                                want,
                                got,
                                eager
                            ),
                        });
                        break;
                    }
                } else {
                    let op = input_ops[ii];
                    ii += 1;
                    moved = true;
                    let mut push = |r: Result<Option<KeyEvent>, pc_keyboard::Error>, produced2: &mut Vec<KeyEvent>| {
                        if let Ok(Some(e)) = r {
                            produced2.push(e);
                        }
                    };
                    match op {
                        Op::Frame { .. } | Op::Noise { .. } | Op::Edge { .. } => {
                            let (bits, via) = match op {
                                Op::Frame { sent, fault, via } => (apply_wfault(sent, fault), via),
                                Op::Noise { word, via } => (word_bits(word & 0x7FF).to_vec(), via),
                                Op::Edge { bit } => (vec![bit], Via::Bit),
                                _ => unreachable!(),
                            };
                            if via == Via::Word && bits.len() == 11 {
                                push(kb2.add_word(bits_word(&bits)), &mut produced2);
                                env.cov.api_calls += 1;
                            } else {
                                for b in bits {
                                    push(kb2.add_bit(b), &mut produced2);
                                    env.cov.api_calls += 1;
                                }
                            }
                        }
                        Op::Byte { b } => {
                            push(kb2.add_byte(b), &mut produced2);
                            env.cov.api_calls += 1;
                        }
                        Op::Word16 { w } => {
                            push(kb2.add_word(w), &mut produced2);
                            env.cov.api_calls += 1;
                        }
                        Op::Clear => {
                            kb2.clear();
                            env.cov.api_calls += 1;
                        }
                        _ => {}
                    }
                    // the key-event history must be the same, event by event (only the events this
                    // op added need comparing)
                    let n = produced2.len().min(produced.len());
                    let from = checked2.min(n);
                    checked2 = n;
                    if produced2[from..n] != produced[from..n] || produced2.len() > produced.len() {
                        violation = Some(Violation {
                            oracle: "schedule-independence".into(),
                            op_index: last_op,
                            detail: format!(
                                "the key events decoded from the same input differ between two interleavings: first execution {:?}..., re-interleaved {:?}...",
                                produced.iter().take(n + 1).last(),
                                produced2.last()
                            ),
                        });
                        break;
                    }
                }
            }
            if violation.is_none() && produced2.len() != produced.len() {
                violation = Some(Violation {
                    oracle: "schedule-independence".into(),
                    op_index: last_op,
                    detail: format!("first execution decoded {} key events, the re-interleaved one {}", produced.len(), produced2.len()),
                });
            }
            if moved {
                env.cov.probe("obs_reinterleaving_moved_a_consumer_action");
            }
            h.mix(produced2.len() as u64);
        }
        env.cov.sim_time_ns += last_t as u128;
        if any_fault {
            env.cov.faulty_runs += 1;
        } else {
            env.cov.fault_free_runs += 1;
        }
        if let Some(v) = &violation {
            h.mix(crate::rng::fnv(v.oracle.as_bytes()));
        }
        Outcome { violation, log_hash: h.0 }
    }

    fn primary_reach(&self) -> &'static str {
        "opkind_bigram_x_bits_pending_x_prefix_ctx_x_modifier_held"
    }
    fn required(&self, cov: &Cov, _tier: Tier) -> Vec<Shortfall> {
        let mut out = Vec::new();
        require_at_least(cov, "opkind_bigram_x_bits_pending_x_prefix_ctx_x_modifier_held", 1000, &mut out);
        require_probes(cov, &mut out);
        out
    }
    fn rule(&self) -> String {
        "one evaluation = one Keyboard return value (or get_modifiers/get_ctrl_handling after an op) compared with the hand-wired mirror of three real stage objects, or one consumer action re-executed under an independently drawn interleaving and compared; distinct_nontrivial = distinct (previous op kind, op kind, bits pending, prefix context, any modifier held) situations in which an op was executed (bitset; not all cells are reachable)".into()
    }
    fn assumptions(&self) -> Vec<String> {
        vec![
            "every mutating method takes &mut self and the crate has no interior mutability, so the schedule space of any concurrent use is the set of interleavings of whole API calls; the simulator's scheduler draws from exactly that space".into(),
            "the mirror's event stage is a real EventDecoder (results, Ctrl mode) plus an event-only Keyboard asked only for get_modifiers (EventDecoder has no modifier getter)".into(),
            "sampled, not enumerated".into(),
        ]
    }
    fn components_real(&self) -> Vec<&'static str> {
        vec!["Keyboard::{add_bit,add_word,add_byte,process_keyevent,clear,set_ctrl_handling,get_ctrl_handling,get_modifiers}", "Ps2Decoder", "ScancodeSet1/2", "event stage", "all 30 layout objects"]
    }
    fn components_model(&self) -> Vec<&'static str> {
        vec!["typist", "keyboard device", "i8042 (Set 1 runs)", "PS/2 wire + fault injector", "ISR task", "watchdog task", "main-loop task with lag knob", "config task", "event queue", "RefFramer/RefSet (coverage only)"]
    }
}

// ------------------------------------------------------------------ C08

pub struct Chaos;

const MAP_CELLS: usize = NLAYOUT_OBJS * NKEYS * 512 * 2;

/// Ordinary modifier events that take the (model) record from `cur` to `target`: NumLock first
/// (its press only counts while the hidden Ctrl is up), CapsLock, then the seven held flags.
fn drive_mods(ops: &mut Vec<TOp>, t: u64, cur: &mut pc_keyboard::Modifiers, target: &pc_keyboard::Modifiers) {
    let mut ev = |ops: &mut Vec<TOp>, cur: &mut pc_keyboard::Modifiers, k: KeyCode, st: u8| {
        ops.push(TOp { t, op: Op::Ev { key: kidx(k) as u8, st } });
        ref_mods_step(cur, k, STATES[st as usize]);
    };
    if cur.numlock != target.numlock {
        if cur.rctrl2 {
            ev(ops, cur, KeyCode::RControl2, 0);
        }
        ev(ops, cur, KeyCode::NumpadLock, 1);
    }
    if cur.capslock != target.capslock {
        ev(ops, cur, KeyCode::CapsLock, 1);
    }
    let pairs = [
        (cur.lshift, target.lshift, KeyCode::LShift),
        (cur.rshift, target.rshift, KeyCode::RShift),
        (cur.lctrl, target.lctrl, KeyCode::LControl),
        (cur.rctrl, target.rctrl, KeyCode::RControl),
        (cur.lalt, target.lalt, KeyCode::LAlt),
        (cur.ralt, target.ralt, KeyCode::RAltGr),
        (cur.rctrl2, target.rctrl2, KeyCode::RControl2),
    ];
    for (have, want, k) in pairs {
        if have != want {
            ev(ops, cur, k, want as u8);
        }
    }
}

impl Scenario for Chaos {
    fn id(&self) -> &'static str {
        "C08"
    }
    fn level(&self) -> &'static str {
        "exploration"
    }
    fn runs(&self, tier: Tier) -> u64 {
        match tier {
            Tier::Quick => 240_000,
            Tier::Thorough => 16_000_000,
        }
    }
    fn declare(&self, cov: &mut Cov) {
        cov.declare("layout_obj_x_key_x_modifiers_x_mode", MAP_CELLS);
        cov.declare("u16_words_to_add_word", 65536);
        cov.declare("object_x_opkind", 6 * 13);
        cov.declare("set1_model_ctx_x_byte", 768);
        cov.declare("set2_model_ctx_x_byte", 1536);
        cov.declare("event_key_x_state", NKEYS * 3);
        cov.declare("event_stage_mods_x_mode_x_key_x_state", 512 * 2 * NKEYS * 3);
        cov.probe_declare("more_than_16_bits_without_clear");
        cov.probe_declare("word_with_bits_above_10");
        cov.probe_declare("map_keycode_with_impossible_modifier_combination");
        cov.probe_declare("layout_changed_on_event_decoder");
        cov.probe_declare("debug_and_eq_impls_of_public_types");
    }
    fn generate(&self, rng: &mut Rng, run: u64, tier: Tier) -> Trace {
        let mut cfg = Cfg::default();
        cfg.layout = if (run / 30) % 8 == 7 { 255 } else { (run % NLAYOUT_OBJS as u64) as u8 };
        cfg.map = rng.bool();
        cfg.obj = ((run / 4) % 2) as u8;
        let n = marathon(run, rng.range(20, if tier == Tier::Quick { 200 } else { 400 }) as usize);
        let mut ops: Vec<TOp> = Vec::new();
        let mut t = 0u64;
        // the event stage in every reachable condition: this run's slice of the cube (modifier
        // record 512 x Ctrl mode 2 x key 124 x key state 3), on a fresh EventDecoder or Keyboard -
        // the record is driven to the target by ordinary modifier events, and re-established
        // after every event that moved it
        {
            let cube = (run % 1024) as usize;
            let quarter = ((run / 1024) % 4) as usize;
            let eobj = 3 + ((run / 4096) % 3) as u8;
            let target = mods_from_index(cube / 2);
            ops.push(TOp { t, op: Op::Obj { id: eobj } });
            ops.push(TOp { t, op: Op::SetCtrl { map: cube % 2 == 1 } });
            let mut cur = initial_mods();
            for key in quarter * (NKEYS / 4)..((quarter + 1) * (NKEYS / 4)).min(NKEYS) {
                for st in [1u8, 0, 2] {
                    drive_mods(&mut ops, t, &mut cur, &target);
                    ops.push(TOp { t, op: Op::Ev { key: key as u8, st } });
                    ref_mods_step(&mut cur, ALL_KEYS[key], STATES[st as usize]);
                }
            }
            // keys beyond a multiple of four (none today) ride with the last quarter
            if quarter == 3 {
                for key in 4 * (NKEYS / 4)..NKEYS {
                    for st in [1u8, 0, 2] {
                        drive_mods(&mut ops, t, &mut cur, &target);
                        ops.push(TOp { t, op: Op::Ev { key: key as u8, st } });
                        ref_mods_step(&mut cur, ALL_KEYS[key], STATES[st as usize]);
                    }
                }
            }
        }
        let mut obj = rng.below(6) as u8;
        ops.push(TOp { t, op: Op::Obj { id: obj } });
        for _ in 0..n {
            t += rng.range(1, 1000) * US;
            if rng.chance(1, 12) {
                obj = rng.below(6) as u8;
                ops.push(TOp { t, op: Op::Obj { id: obj } });
                continue;
            }
            let op = match rng.below(12) {
                0 | 1 => Op::Edge { bit: rng.bool() },
                2 => Op::Word16 { w: (rng.next() >> 48) as u16 },
                3 => Op::Noise { word: rng.below(2048) as u16, via: Via::Word },
                4 | 5 => Op::Byte { b: if rng.chance(1, 4) { *rng.pick(&[0xE0u8, 0xE1, 0xF0, 0x00, 0xAA, 0xFF, 0x80, 0x7F]) } else { rng.byte() } },
                6 => Op::Clear,
                7 | 8 => Op::Ev { key: rng.below(NKEYS as u64) as u8, st: rng.below(3) as u8 },
                9 => Op::SetCtrl { map: rng.bool() },
                10 => Op::Layout { id: rng.below(NLAYOUT_OBJS as u64) as u8 },
                _ => Op::Map { layout: rng.below(NLAYOUT_OBJS as u64) as u8, key: rng.below(NKEYS as u64) as u8, mods: rng.below(512) as u16, map: rng.bool() },
            };
            ops.push(TOp { t, op });
            // a stuck line / a flood of identical replies: the same byte, bit or event hundreds
            // of times in a row (counters must not run away)
            if rng.chance(1, 400) {
                let reps = if rng.chance(1, 60) {
                    rng.range(65_530, 66_200) // past the 16-bit mark
                } else if rng.bool() {
                    rng.range(250, 262)
                } else {
                    rng.range(258, 600)
                };
                let fb = rng.byte();
                let fw = crate::model::bits_word(&crate::model::encode_frame(fb));
                let flood = match op {
                    Op::Byte { .. } => Op::Byte { b: *rng.pick(&[0xFFu8, 0xFE, 0xFA, 0xEE, 0x00, 0xAA, 0x1C, 0xF0, 0xE0]) },
                    Op::Ev { key, .. } => Op::Ev { key, st: 1 },
                    // whole frames, bit by bit or as words: valid ones, ones whose only fault is the
                    // parity bit (an even-parity device), a line stuck high or low
                    Op::Noise { .. } | Op::Word16 { .. } => Op::Noise {
                        word: match rng.below(4) {
                            0 => fw,
                            1 => fw ^ 0x200,
                            2 => 0x7FF,
                            _ => 0x000,
                        },
                        via: if rng.bool() { Via::Bit } else { Via::Word },
                    },
                    other => other,
                };
                let tap = matches!(op, Op::Byte { .. }) && rng.chance(1, 3);
                for _ in 0..reps {
                    if let Op::Clear = flood {
                        // a timeout that discards a partial frame, over and over
                        ops.push(TOp { t, op: Op::Edge { bit: rng.bool() } });
                    }
                    if tap {
                        // one key tapped over and over: make, break (both encodings; the objects
                        // reading the other set see garbage, which is fine here)
                        let c = 0x1C + (fb & 7);
                        ops.push(TOp { t, op: Op::Byte { b: c } });
                        ops.push(TOp { t, op: Op::Byte { b: 0xF0 } });
                        ops.push(TOp { t, op: Op::Byte { b: c } });
                        ops.push(TOp { t, op: Op::Byte { b: c | 0x80 } });
                        continue;
                    }
                    ops.push(TOp { t, op: flood });
                }
            }
            // a typist's idiom: some modifiers go down, a key is typed, one modifier changes,
            // the same key is typed again
            if let Op::Ev { key, .. } = op {
                if rng.chance(1, 4) {
                    const MODS: [usize; 9] = [76, 87, 93, 100, 95, 97, 122, 60, 34]; // LShift RShift LControl RControl LAlt RAltGr RControl2 CapsLock NumpadLock
                    for _ in 0..rng.below(4) {
                        ops.push(TOp { t, op: Op::Ev { key: *rng.pick(&MODS) as u8, st: rng.below(2) as u8 } });
                    }
                    ops.push(TOp { t, op: Op::Ev { key, st: 1 } });
                    if rng.bool() {
                        ops.push(TOp { t, op: Op::Ev { key, st: 0 } });
                    }
                    ops.push(TOp { t, op: Op::Ev { key: *rng.pick(&MODS) as u8, st: rng.below(2) as u8 } });
                    ops.push(TOp { t, op: Op::Ev { key, st: 1 } });
                }
            }
            // entering a character by its code: Alt held, one to five keypad digits, Alt released
            if let Op::Ev { .. } = op {
                if rng.chance(1, 12) {
                    let alt = kidx(if rng.chance(3, 4) { KeyCode::LAlt } else { KeyCode::RAltGr }) as u8;
                    const PAD: [KeyCode; 10] = [KeyCode::Numpad0, KeyCode::Numpad1, KeyCode::Numpad2, KeyCode::Numpad3, KeyCode::Numpad4, KeyCode::Numpad5, KeyCode::Numpad6, KeyCode::Numpad7, KeyCode::Numpad8, KeyCode::Numpad9];
                    ops.push(TOp { t, op: Op::Ev { key: alt, st: 1 } });
                    let nd = rng.range(1, 5);
                    // all code points a five-digit entry can name, the 16-bit and 21-bit edges included
                    let number = match rng.below(4) {
                        0 => rng.below(100_000),
                        1 => 55_000 + rng.below(3_000),
                        2 => 65_000 + rng.below(1_000),
                        _ => rng.below(10u64.pow(nd as u32)),
                    };
                    let text = format!("{}", number);
                    for ch in text.bytes() {
                        let k = kidx(PAD[(ch - b'0') as usize]) as u8;
                        ops.push(TOp { t, op: Op::Ev { key: k, st: 1 } });
                        if rng.chance(9, 10) {
                            ops.push(TOp { t, op: Op::Ev { key: k, st: 0 } });
                        }
                    }
                    ops.push(TOp { t, op: Op::Ev { key: alt, st: 0 } });
                }
            }
            // runs of bits: the counter must never run away
            if let Op::Edge { .. } = op {
                if rng.chance(1, 6) {
                    for _ in 0..rng.range(10, 40) {
                        ops.push(TOp { t, op: Op::Edge { bit: rng.bool() } });
                    }
                }
            }
        }
        // systematic sweep of the layout domain: this run's slice of the 3.8 M cells
        let slice = if tier == Tier::Quick { 96 } else { 64 };
        let base = (run as usize).wrapping_mul(slice) % MAP_CELLS;
        for j in 0..slice {
            let c = (base + j) % MAP_CELLS;
            let map = c % 2 == 1;
            let mods = (c / 2) % 512;
            let key = (c / 1024) % NKEYS;
            let layout = c / (1024 * NKEYS);
            ops.push(TOp { t, op: Op::Map { layout: layout as u8, key: key as u8, mods: mods as u16, map } });
        }
        // every (decoder context, byte) of both scancode decoders: flush with an ordinary
        // code, enter the context, feed the byte
        let f2 = (run % 1536) as usize;
        ops.push(TOp { t, op: Op::Obj { id: 2 } });
        ops.push(TOp { t, op: Op::Byte { b: 0x1C } });
        for b in [&[][..], &[0xE0], &[0xE1], &[0xF0], &[0xE0, 0xF0], &[0xE1, 0xF0]][f2 / 256] {
            ops.push(TOp { t, op: Op::Byte { b: *b } });
        }
        ops.push(TOp { t, op: Op::Byte { b: (f2 % 256) as u8 } });
        let f1 = (run % 768) as usize;
        ops.push(TOp { t, op: Op::Obj { id: 1 } });
        ops.push(TOp { t, op: Op::Byte { b: 0x1C } });
        for b in [&[][..], &[0xE0], &[0xE1]][f1 / 256] {
            ops.push(TOp { t, op: Op::Byte { b: *b } });
        }
        ops.push(TOp { t, op: Op::Byte { b: (f1 % 256) as u8 } });
        // and of the 16-bit word domain
        let wbase = (run as usize * 16) % 65536;
        for j in 0..16 {
            ops.push(TOp { t, op: Op::Word16 { w: ((wbase + j) % 65536) as u16 } });
        }
        Trace { prop: "C08".into(), cfg, ops, seed: 0, run, expect: None }
    }
    fn execute(&self, trace: &Trace, env: &mut Env) -> Outcome {
        let cfg = &trace.cfg;
        let lay = cfg.layout as usize % NLAYOUT_OBJS;
        let mut h = LogHash::new();
        // obj bit 0: bare decoders built through their Default impls; layout 255: a recording
        // layout (every answer unique) instead of a real one
        let via_default = cfg.obj & 1 == 1;
        let rec_log: AskLog = std::rc::Rc::new(std::cell::RefCell::new(RecLog::default()));
        let mk_layout = |id: u8| -> DynLayout {
            if cfg.layout == 255 {
                DynLayout::Recorder { id, log: rec_log.clone() }
            } else {
                DynLayout::object(lay)
            }
        };
        let mut ps2 = if via_default { Ps2Decoder::default() } else { Ps2Decoder::new() };
        let mut s1 = if via_default { DynSet::via_default(1) } else { DynSet::new(1) };
        let mut s2 = if via_default { DynSet::via_default(2) } else { DynSet::new(2) };
        let mut ed = EventDecoder::new(mk_layout(0), hc(cfg.map));
        let mut kb1 = KbAny::new(1, mk_layout(1), hc(cfg.map));
        let mut kb2 = KbAny::new(2, mk_layout(2), hc(cfg.map));
        let mut m1 = RefSet1::new();
        let mut m2 = RefSet2::new();
        let mut obj = 0usize;
        let mut bits_since_clear = 0usize;
        let mut last_t = 0;
        // model side only (coverage): the modifier record and Ctrl mode of the three event stages
        let mut refm = [initial_mods(), initial_mods(), initial_mods()];
        let mut refmode = [cfg.map; 3];
        let stage_of = |obj: usize| match obj {
            4 => 1usize,
            5 => 2,
            _ => 0,
        };
        for (i, top) in trace.ops.iter().enumerate() {
            env.cur_op = i;
            last_t = top.t.max(last_t);
            env.cov.hit("object_x_opkind", obj * 13 + top.op.kind() as usize);
            env.cov.api_calls += 1;
            env.cov.evaluations += 1;
            match top.op {
                Op::Obj { id } => {
                    obj = id as usize % 6;
                    // the derived / hand-written trait impls of the public types are public
                    // operations too: formatting and comparing must return normally in any state
                    let text = format!("{:?} {:?} {:?} {:?}", ps2, kb1.get_modifiers(), kb2.get_modifiers().clone() == *kb1.get_modifiers(), pc_keyboard::Modifiers::default());
                    h.mix(text.len() as u64 & 1);
                    {
                        use std::hash::{Hash, Hasher};
                        let mut hs = std::collections::hash_map::DefaultHasher::new();
                        kb1.get_modifiers().hash(&mut hs);
                        kb2.get_modifiers().hash(&mut hs);
                        let _ = hs.finish(); // (value not used: DefaultHasher is not part of the log)
                    }
                    env.cov.probe("debug_and_eq_impls_of_public_types");
                }
                Op::Edge { bit } => {
                    bits_since_clear += 1;
                    if bits_since_clear > 16 {
                        env.cov.probe("more_than_16_bits_without_clear");
                    }
                    let r = match obj {
                        4 => kb1.add_bit(bit).map(|_| ()),
                        5 => kb2.add_bit(bit).map(|_| ()),
                        _ => ps2.add_bit(bit).map(|_| ()),
                    };
                    h.mix(r.is_ok() as u64);
                }
                Op::Noise { word, via: Via::Bit } => {
                    for bit in crate::model::word_bits(word & 0x7FF) {
                        bits_since_clear += 1;
                        let r = match obj {
                            4 => kb1.add_bit(bit).map(|_| ()),
                            5 => kb2.add_bit(bit).map(|_| ()),
                            _ => ps2.add_bit(bit).map(|_| ()),
                        };
                        env.cov.api_calls += 1;
                        h.mix(r.is_ok() as u64);
                    }
                }
                Op::Word16 { w } | Op::Noise { word: w, .. } => {
                    env.cov.hit("u16_words_to_add_word", w as usize);
                    if w > 0x7FF {
                        env.cov.probe("word_with_bits_above_10");
                    }
                    let r = match obj {
                        4 => kb1.add_word(w).map(|_| ()),
                        5 => kb2.add_word(w).map(|_| ()),
                        _ => ps2.add_word(w).map(|_| ()),
                    };
                    h.mix(r.is_ok() as u64);
                }
                Op::Byte { b } => {
                    let r = match obj {
                        4 => kb1.add_byte(b),
                        5 | 0 => kb2.add_byte(b),
                        1 | 3 => {
                            env.cov.hit("set1_model_ctx_x_byte", m1.ctx as usize * 256 + b as usize);
                            m1.advance(env.tables, b);
                            s1.advance_state(b)
                        }
                        _ => {
                            env.cov.hit("set2_model_ctx_x_byte", m2.ctx as usize * 256 + b as usize);
                            m2.advance(env.tables, b);
                            s2.advance_state(b)
                        }
                    };
                    h.mix(Res::of(&r).hash());
                }
                Op::Clear => {
                    bits_since_clear = 0;
                    match obj {
                        // (statements, not expressions: a clear() that starts returning something is
                        // still source-compatible for callers and must stay so for this harness)
                        4 => {
                            let _ = kb1.clear();
                        }
                        5 => {
                            let _ = kb2.clear();
                        }
                        _ => {
                            let _ = ps2.clear();
                        }
                    }
                }
                Op::Ev { key, st } => {
                    let e = KeyEvent::new(ALL_KEYS[key as usize % NKEYS], STATES[st as usize % 3]);
                    env.cov.hit("event_key_x_state", (key as usize % NKEYS) * 3 + st as usize % 3);
                    {
                        let sg = stage_of(obj);
                        let cell = ((mods_index(&refm[sg]) * 2 + refmode[sg] as usize) * NKEYS + key as usize % NKEYS) * 3 + st as usize % 3;
                        env.cov.hit("event_stage_mods_x_mode_x_key_x_state", cell);
                        ref_mods_step(&mut refm[sg], ALL_KEYS[key as usize % NKEYS], STATES[st as usize % 3]);
                    }
                    let shown = format!("{:?}", e);
                    let r = match obj {
                        4 => kb1.process_keyevent(e),
                        5 => kb2.process_keyevent(e),
                        _ => ed.process_keyevent(e),
                    };
                    h.mix(dk_hash(&r) ^ (shown.len() as u64 & 1) ^ (format!("{:?}", r).len() as u64 & 1));
                }
                Op::SetCtrl { map } => {
                    refmode[stage_of(obj)] = map;
                    match obj {
                    4 => kb1.set_ctrl_handling(hc(map)),
                    5 => kb2.set_ctrl_handling(hc(map)),
                    _ => ed.set_ctrl_handling(hc(map)),
                    }
                }
                Op::Layout { id } => {
                    if cfg.layout == 255 {
                        ed.change_layout(DynLayout::Recorder { id, log: rec_log.clone() });
                        rec_log.borrow_mut().asked.clear();
                    } else {
                        ed.change_layout(DynLayout::object(id as usize % NLAYOUT_OBJS));
                    }
                    env.cov.probe("layout_changed_on_event_decoder");
                }
                Op::Map { layout, key, mods, map } => {
                    let l = layout as usize % NLAYOUT_OBJS;
                    let m = mods_from_index(mods as usize % 512);
                    if m.rctrl2 || (m.lshift && m.rshift) || (m.lalt && m.ralt) {
                        env.cov.probe("map_keycode_with_impossible_modifier_combination");
                    }
                    let r = DynLayout::object(l).map_keycode(ALL_KEYS[key as usize % NKEYS], &m, hc(map));
                    env.cov.hit("layout_obj_x_key_x_modifiers_x_mode", ((l * NKEYS + key as usize % NKEYS) * 512 + mods as usize % 512) * 2 + map as usize);
                    h.mix(dk_hash(&Some(r)));
                    // the predicates are public operations too
                    let _ = (m.is_shifted(), m.is_ctrl(), m.is_alt(), m.is_altgr(), m.is_caps());
                }
                _ => {}
            }
            if env.verbose {
                env.log.push(format!("op {} {} on object {}: returned normally", i, op_show(&top.op), obj));
            }
        }
        env.cov.sim_time_ns += last_t as u128;
        env.cov.faulty_runs += 1;
        Outcome { violation: None, log_hash: h.0 }
    }
    fn primary_reach(&self) -> &'static str {
        "layout_obj_x_key_x_modifiers_x_mode"
    }
    fn required(&self, cov: &Cov, _tier: Tier) -> Vec<Shortfall> {
        let mut out = Vec::new();
        require_full(cov, "layout_obj_x_key_x_modifiers_x_mode", &mut out);
        require_full(cov, "u16_words_to_add_word", &mut out);
        require_full(cov, "set1_model_ctx_x_byte", &mut out);
        require_full(cov, "set2_model_ctx_x_byte", &mut out);
        require_full(cov, "event_key_x_state", &mut out);
        require_full(cov, "event_stage_mods_x_mode_x_key_x_state", &mut out);
        require_probes(cov, &mut out);
        out
    }
    fn rule(&self) -> String {
        "one evaluation = one public operation executed under an unwind guard (built with overflow checks and debug assertions) on one of six objects (Ps2Decoder, ScancodeSet1, ScancodeSet2, EventDecoder, Keyboard over each set) in a random order with arbitrary arguments; distinct_nontrivial = distinct (layout object, key, modifier set, Ctrl mode) points on which map_keycode was called (bitset of 3,809,280), further measures cover all 65,536 add_word arguments and every (decoder context, byte)".into()
    }
    fn assumptions(&self) -> Vec<String> {
        vec![
            "the crate contains no unsafe code (so no undefined behaviour to look for beyond panics); built with overflow-checks and debug-assertions on".into(),
            "a panic is attributed to the crate unless its location is one of the simulator's own source files".into(),
            "every other check runs under the same guard and build flags, so each of their runs is a C08 witness too".into(),
        ]
    }
    fn components_real(&self) -> Vec<&'static str> {
        vec!["every public operation of Ps2Decoder, ScancodeSet1, ScancodeSet2, EventDecoder, Keyboard, Modifiers predicates, all 30 layout objects"]
    }
    fn components_model(&self) -> Vec<&'static str> {
        vec!["chaos task (seeded random operation stream)", "systematic sweeps of the layout and add_word domains by run index", "RefSet1/RefSet2 (coverage only)"]
    }
}
