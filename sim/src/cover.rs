//! Coverage accounting: bitset reach measures, named counters (faults that
//! actually fired, rare-condition probes), never touching a PRNG or a clock.
use std::collections::BTreeMap;

#[derive(Clone)]
pub struct BitSet {
    pub bits: Vec<u64>,
    pub len: usize,
}
impl BitSet {
    pub fn new(len: usize) -> BitSet {
        BitSet { bits: vec![0; (len + 63) / 64], len }
    }
    #[inline]
    pub fn set(&mut self, i: usize) {
        debug_assert!(i < self.len, "bit {} out of {}", i, self.len);
        self.bits[i >> 6] |= 1u64 << (i & 63);
    }
    #[inline]
    pub fn get(&self, i: usize) -> bool {
        (self.bits[i >> 6] >> (i & 63)) & 1 != 0
    }
    pub fn count(&self) -> u64 {
        self.bits.iter().map(|w| w.count_ones() as u64).sum()
    }
    pub fn or(&mut self, o: &BitSet) {
        assert_eq!(self.len, o.len);
        for (a, b) in self.bits.iter_mut().zip(o.bits.iter()) {
            *a |= *b;
        }
    }
    pub fn hash(&self) -> u64 {
        let mut h = crate::rng::LogHash::new();
        for w in &self.bits {
            h.mix(*w);
        }
        h.0
    }
}

/// Everything one worker learns during a batch; merged order-independently
/// (OR on bitsets, + on counters, XOR/sum on per-run hashes).
#[derive(Clone, Default)]
pub struct Cov {
    pub reach: BTreeMap<&'static str, BitSet>,
    pub faults: BTreeMap<String, u64>,
    pub probes: BTreeMap<String, u64>,
    pub counters: BTreeMap<String, u64>,
    /// real API calls whose result an oracle compared
    pub evaluations: u64,
    /// every real API call made
    pub api_calls: u64,
    pub sim_time_ns: u128,
    pub runs: u64,
    pub fault_free_runs: u64,
    pub faulty_runs: u64,
    /// sum (wrapping) of per-run log hashes mixed with the run index: batch
    /// determinism fingerprint that does not depend on worker scheduling
    pub log_hash_sum: u64,
    pub samples: Vec<String>,
}

impl Cov {
    pub fn new() -> Cov {
        Cov::default()
    }
    pub fn declare(&mut self, name: &'static str, len: usize) {
        self.reach.entry(name).or_insert_with(|| BitSet::new(len));
    }
    #[inline]
    pub fn hit(&mut self, name: &'static str, i: usize) {
        if let Some(b) = self.reach.get_mut(name) {
            b.set(i);
        } else {
            panic!("undeclared reach measure {}", name);
        }
    }
    pub fn fault(&mut self, k: &str) {
        *self.faults.entry(k.to_string()).or_insert(0) += 1;
    }
    pub fn probe(&mut self, k: &str) {
        *self.probes.entry(k.to_string()).or_insert(0) += 1;
    }
    pub fn probe_declare(&mut self, k: &str) {
        self.probes.entry(k.to_string()).or_insert(0);
    }
    pub fn fault_declare(&mut self, k: &str) {
        self.faults.entry(k.to_string()).or_insert(0);
    }
    pub fn count(&mut self, k: &str, n: u64) {
        *self.counters.entry(k.to_string()).or_insert(0) += n;
    }
    pub fn merge(&mut self, o: &Cov) {
        for (k, b) in &o.reach {
            match self.reach.get_mut(k) {
                Some(a) => a.or(b),
                None => {
                    self.reach.insert(k, b.clone());
                }
            }
        }
        for (k, v) in &o.faults {
            *self.faults.entry(k.clone()).or_insert(0) += v;
        }
        for (k, v) in &o.probes {
            *self.probes.entry(k.clone()).or_insert(0) += v;
        }
        for (k, v) in &o.counters {
            *self.counters.entry(k.clone()).or_insert(0) += v;
        }
        self.evaluations += o.evaluations;
        self.api_calls += o.api_calls;
        self.sim_time_ns += o.sim_time_ns;
        self.runs += o.runs;
        self.fault_free_runs += o.fault_free_runs;
        self.faulty_runs += o.faulty_runs;
        self.log_hash_sum = self.log_hash_sum.wrapping_add(o.log_hash_sum);
    }
}
