//! EVENTS scenarios: a typist at the key-event interface (with lost breaks,
//! typematic repeats, phantom events), configuration calls at arbitrary
//! instants, and - on `Keyboard` - wire/byte input interleaved with the main
//! loop that drains the event queue. Serves C04 (modifier state = fold over the
//! delivered event history) and C14 (one decoded key per press via the live
//! layout and mode; recording layout).
use crate::cover::Cov;
use crate::dynobj::*;
use crate::keys::*;
use crate::model::*;
use crate::op::*;
use crate::rng::{LogHash, Rng};
use crate::scen::*;
use crate::typist::MS;
use crate::world::*;
use pc_keyboard::{DecodedKey, EventDecoder, HandleControl, KeyCode, KeyEvent, KeyState, Keyboard, KeyboardLayout, Modifiers};
use std::cell::RefCell;
use std::collections::VecDeque;
use std::rc::Rc;

#[derive(Clone, Copy, PartialEq, Eq)]
pub enum EProp {
    C04,
    C14,
}
pub struct Events {
    pub prop: EProp,
}

const MOD_KEYS: [KeyCode; 9] = [
    KeyCode::LShift,
    KeyCode::RShift,
    KeyCode::LControl,
    KeyCode::RControl,
    KeyCode::LAlt,
    KeyCode::RAltGr,
    KeyCode::RControl2,
    KeyCode::CapsLock,
    KeyCode::NumpadLock,
];

/// Keys that are "modifier/lock-like" only colloquially: the statement lets an
/// implementation answer either through the layout or with the raw key itself.
fn lenient_key(k: KeyCode) -> bool {
    matches!(k, KeyCode::ScrollLock | KeyCode::LWin | KeyCode::RWin | KeyCode::RAlt2)
}

enum Sut {
    Kb(KbAny),
    Ed(EventDecoder<DynLayout>),
}
impl Sut {
    fn process(&mut self, e: KeyEvent) -> Option<DecodedKey> {
        match self {
            Sut::Kb(k) => k.process_keyevent(e),
            Sut::Ed(d) => d.process_keyevent(e),
        }
    }
    fn set_ctrl(&mut self, h: HandleControl) {
        match self {
            Sut::Kb(k) => k.set_ctrl_handling(h),
            Sut::Ed(d) => d.set_ctrl_handling(h),
        }
    }
    fn get_ctrl(&self) -> HandleControl {
        match self {
            Sut::Kb(k) => k.get_ctrl_handling(),
            Sut::Ed(d) => d.get_ctrl_handling(),
        }
    }
    fn mods(&self) -> Option<Modifiers> {
        match self {
            Sut::Kb(k) => Some(k.get_modifiers().clone()),
            Sut::Ed(_) => None,
        }
    }
}

impl Events {
    fn pid(&self) -> &'static str {
        match self.prop {
            EProp::C04 => "C04",
            EProp::C14 => "C14",
        }
    }
}

fn decoded_show(d: &Option<DecodedKey>) -> String {
    match d {
        None => "None".into(),
        Some(DecodedKey::RawKey(k)) => format!("RawKey({})", kname(*k)),
        Some(DecodedKey::Unicode(c)) => format!("Unicode(U+{:04X})", *c as u32),
        #[allow(unreachable_patterns)]
        Some(other) => format!("{:?}", other),
    }
}
fn decoded_hash(d: &Option<DecodedKey>) -> u64 {
    match d {
        None => 0,
        Some(DecodedKey::RawKey(k)) => 1000 + kidx(*k) as u64,
        Some(DecodedKey::Unicode(c)) => 100_000 + *c as u64,
        #[allow(unreachable_patterns)]
        Some(_) => 7,
    }
}

impl Scenario for Events {
    fn id(&self) -> &'static str {
        self.pid()
    }
    fn level(&self) -> &'static str {
        "exploration"
    }
    fn runs(&self, tier: Tier) -> u64 {
        match tier {
            Tier::Quick => 400000,
            Tier::Thorough => 20000000,
        }
    }
    fn declare(&self, cov: &mut Cov) {
        cov.declare("transitions_mods_x_mode_x_key_x_state", 512 * 2 * NKEYS * 3);
        cov.declare("modifier_states_visited", 512);
        cov.declare("flag_transitions_from_state", 512 * 18);
        cov.declare("inputs_key_x_state", NKEYS * 3);
        for k in ["lost_break", "typematic_repeat", "phantom_event", "singleshot_of_modifier", "up_without_down", "garbage_byte_on_wire", "bad_frame_on_wire"] {
            cov.fault_declare(k);
        }
        cov.probe_declare("numlock_pressed_under_hidden_ctrl");
        cov.probe_declare("numlock_toggled");
        cov.probe_declare("capslock_toggled_twice");
        cov.probe_declare("setctrl_between_two_presses");
        cov.probe_declare("modifier_change_between_two_presses");
        cov.probe_declare("setctrl_while_ordinary_key_held");
        cov.probe_declare("obs_event_arrived_via_wire_and_queue");
        cov.probe_declare("clear_while_modifier_held");
        if self.prop == EProp::C14 {
            cov.probe_declare("layout_change_between_two_presses");
            cov.probe_declare("layout_change_while_ordinary_key_held");
            cov.probe_declare("layout_consulted_with_nondefault_modifiers");
            cov.probe_declare("release_of_ordinary_key_silent");
            cov.probe_declare("lenient_key_pressed");
            cov.probe_declare("real_layout_object_consulted");
        }
    }

    fn generate(&self, rng: &mut Rng, run: u64, tier: Tier) -> Trace {
        let mut cfg = Cfg::default();
        // C14: one batch in eight installs the crate's real layout objects (all 30, also by
        // reference) instead of the recorder; the oracle then asks the same object directly
        cfg.layout = if self.prop == EProp::C14 && (run / 8) % 8 == 3 { (run % NLAYOUT_OBJS as u64) as u8 } else { 255 };
        cfg.set = if rng.bool() { 2 } else { 1 };
        cfg.map = rng.bool();
        // C04 needs get_modifiers(), which only Keyboard has; C14 alternates
        // C14: every other block of four runs drives a bare EventDecoder (change_layout exists only
        // there); C04: one block in eight - without a getter the modifier record shows in what the
        // recording layout is handed
        cfg.obj = if (self.prop == EProp::C14 && (run / 4) % 2 == 1) || (self.prop == EProp::C04 && (run / 4) % 8 == 5) { 1 } else { 0 };
        let rate_class = (run % 4) as u8;
        cfg.rate = rate_class;
        let rate_pct = [0u64, 2, 10, 30][rate_class as usize];
        let n = marathon(run, rng.range(10, if tier == Tier::Quick { 120 } else { 300 }) as usize);
        let fault_limit = n * 2 / 3;
        // how modifier-heavy the session is: a biased walk over the 512-state cube
        let mod_bias = *rng.pick(&[20u64, 50, 80]);
        // stratum: one ordinary key and one modifier state region get over-sampled
        let focus_key = ((run / 4) % NKEYS as u64) as u8;
        // swarm: a third of the sessions use only a handful of ordinary keys and modifiers,
        // which makes specific orderings among few keys common
        let few_keys: Option<Vec<u8>> = if rng.chance(1, 3) {
            let mut v = vec![focus_key];
            for _ in 0..rng.range(1, 5) {
                v.push(rng.below(NKEYS as u64) as u8);
            }
            Some(v)
        } else {
            None
        };
        let few_mods: Option<Vec<u8>> = if few_keys.is_some() && rng.bool() {
            let mut v = Vec::new();
            for _ in 0..rng.range(1, 4) {
                v.push(kidx(*rng.pick(&MOD_KEYS)) as u8);
            }
            Some(v)
        } else {
            None
        };
        let mut ops: Vec<TOp> = Vec::new();
        let mut held: Vec<u8> = Vec::new();
        let mut t = 0u64;
        let wire_ok = cfg.obj == 0;
        let known: Vec<(u8, u8)> = crate::typist::known_phys(&cfg);
        for i in 0..n {
            t += rng.range(1, 300) * MS;
            let faulty = i < fault_limit && rng.chance(rate_pct, 100);
            // configuration task
            if rng.chance(6, 100) {
                ops.push(TOp { t, op: Op::SetCtrl { map: rng.bool() } });
                continue;
            }
            if cfg.obj == 1 && rng.chance(6, 100) {
                ops.push(TOp { t, op: Op::Layout { id: rng.below(4) as u8 } });
                continue;
            }
            // input arriving over the wire / byte interface, drained by the main loop later
            if wire_ok && rng.chance(8, 100) {
                let (pfx, code) = *rng.pick(&known);
                for brk in [false, true] {
                    for b in host_bytes(&cfg, pfx, code, brk) {
                        if rng.bool() {
                            ops.push(TOp { t, op: Op::Byte { b } });
                        } else if faulty && rng.chance(1, 3) {
                            if rng.bool() {
                                // frame damaged, keyboard resends
                                ops.push(TOp { t, op: Op::Frame { sent: b, fault: WFault::Flip(1 << rng.below(11)), via: Via::Bit } });
                            } else {
                                // cable glitch mid-frame: the watchdog discards the partial word, keyboard resends
                                ops.push(TOp { t, op: Op::Frame { sent: b, fault: WFault::Trunc(rng.range(1, 10) as u8), via: Via::Bit } });
                                for _ in 0..rng.below(2) {
                                    ops.push(TOp { t, op: Op::Pev });
                                }
                                ops.push(TOp { t, op: Op::Clear });
                            }
                            ops.push(TOp { t, op: Op::Frame { sent: b, fault: WFault::None, via: Via::Bit } });
                        } else {
                            ops.push(TOp { t, op: Op::Frame { sent: b, fault: WFault::None, via: if rng.bool() { Via::Bit } else { Via::Word } } });
                        }
                        t += 1 * MS;
                    }
                    if faulty && rng.chance(1, 4) {
                        ops.push(TOp { t, op: Op::Byte { b: rng.byte() } });
                    }
                    if rng.chance(1, 4) {
                        ops.push(TOp { t, op: Op::Clear });
                    }
                    for _ in 0..rng.below(3) {
                        ops.push(TOp { t, op: Op::Pev });
                    }
                }
                continue;
            }
            if wire_ok && rng.chance(3, 100) {
                ops.push(TOp { t, op: Op::Clear });
                continue;
            }
            // a jammed or unplugged line while keys may be held: the same rejected word over and
            // over, sometimes for a minute (past the 16-bit mark)
            if wire_ok && faulty && rng.chance(1, 60) {
                let w = if rng.bool() { 0x7FF } else { 0x000 };
                let via = if rng.bool() { Via::Bit } else { Via::Word };
                let n = if rng.chance(1, 40) { rng.range(65_530, 66_200) } else { rng.range(2, 40) };
                for _ in 0..n {
                    ops.push(TOp { t, op: Op::Noise { word: w, via } });
                }
                continue;
            }
            if faulty {
                // event-level faults
                match rng.below(4) {
                    0 if !held.is_empty() => {
                        // lost break: the key goes up but the host never hears of it
                        let j = rng.below(held.len() as u64) as usize;
                        held.remove(j);
                        continue;
                    }
                    1 => {
                        let k = *rng.pick(&MOD_KEYS);
                        ops.push(TOp { t, op: Op::Ev { key: kidx(k) as u8, st: 2 } });
                        continue;
                    }
                    2 => {
                        // Up of a key that is not down
                        let k = if rng.bool() { kidx(*rng.pick(&MOD_KEYS)) as u8 } else { rng.below(NKEYS as u64) as u8 };
                        ops.push(TOp { t, op: Op::Ev { key: k, st: 0 } });
                        continue;
                    }
                    _ => {
                        ops.push(TOp { t, op: Op::Ev { key: rng.below(NKEYS as u64) as u8, st: rng.below(3) as u8 } });
                        continue;
                    }
                }
            }
            // drumming: the same key tapped again and again, mostly a few taps, sometimes dozens
            if rng.chance(1, 50) {
                let k = if rng.chance(1, 2) { kidx(*rng.pick(&MOD_KEYS)) as u8 } else { rng.below(NKEYS as u64) as u8 };
                if !held.contains(&k) {
                    let taps = if rng.chance(1, 4) { rng.range(10, 45) } else { rng.range(2, 6) };
                    for _ in 0..taps {
                        ops.push(TOp { t, op: Op::Ev { key: k, st: 1 } });
                        t += rng.range(20, 120) * MS;
                        ops.push(TOp { t, op: Op::Ev { key: k, st: 0 } });
                        t += rng.range(20, 200) * MS;
                    }
                    // ... and then straight on to another key
                    if rng.bool() {
                        ops.push(TOp { t, op: Op::Ev { key: rng.below(NKEYS as u64) as u8, st: 1 } });
                    }
                    continue;
                }
            }
            // entering a character by its code: Alt held, three or four keypad digits, Alt released
            if rng.chance(1, 150) {
                let alt = kidx(if rng.chance(3, 4) { KeyCode::LAlt } else { KeyCode::RAltGr }) as u8;
                let digits = [KeyCode::Numpad0, KeyCode::Numpad1, KeyCode::Numpad2, KeyCode::Numpad3, KeyCode::Numpad4, KeyCode::Numpad5, KeyCode::Numpad6, KeyCode::Numpad7, KeyCode::Numpad8, KeyCode::Numpad9];
                ops.push(TOp { t, op: Op::Ev { key: alt, st: 1 } });
                let n = rng.range(3, 4);
                for j in 0..n {
                    let d = if j == 0 && rng.bool() { KeyCode::Numpad0 } else { *rng.pick(&digits[..if j == 0 { 3 } else { 10 }]) };
                    t += rng.range(50, 300) * MS;
                    ops.push(TOp { t, op: Op::Ev { key: kidx(d) as u8, st: 1 } });
                    if rng.chance(9, 10) {
                        ops.push(TOp { t: t + 40 * MS, op: Op::Ev { key: kidx(d) as u8, st: 0 } });
                    }
                }
                t += rng.range(50, 300) * MS;
                ops.push(TOp { t, op: Op::Ev { key: alt, st: 0 } });
                continue;
            }
            let release = !held.is_empty() && (held.len() >= 6 || rng.chance(40, 100));
            if release {
                let j = rng.below(held.len() as u64) as usize;
                let k = held.remove(j);
                ops.push(TOp { t, op: Op::Ev { key: k, st: 0 } });
                continue;
            }
            if !held.is_empty() && rng.chance(8, 100) {
                let k = *held.last().unwrap();
                // usually a few repeats; now and then somebody leans on the key for half a minute
                let reps = if !rng.chance(1, 200) {
                    rng.range(1, 3)
                } else if rng.chance(1, 25) {
                    // a book on the keyboard: past the 16-bit mark, now and then past 2^18 and 2^20
                    match rng.below(24) {
                        0 => rng.range(1_048_570, 1_048_600),
                        1..=4 => rng.range(262_140, 262_200),
                        _ => rng.range(65_530, 66_200),
                    }
                } else if rng.bool() {
                    rng.range(250, 262) // right around the mark where 8-bit bookkeeping would wrap
                } else {
                    rng.range(258, 700)
                };
                for _ in 0..reps {
                    ops.push(TOp { t, op: Op::Ev { key: k, st: 1 } });
                    t += rng.range(30, 500) * MS;
                }
                continue;
            }
            let k: u8 = if rng.chance(mod_bias, 100) {
                match &few_mods {
                    Some(v) => *rng.pick(v),
                    None => kidx(*rng.pick(&MOD_KEYS)) as u8,
                }
            } else if let Some(v) = &few_keys {
                *rng.pick(v)
            } else if rng.chance(1, 3) {
                focus_key
            } else {
                rng.below(NKEYS as u64) as u8
            };
            if !held.contains(&k) {
                held.push(k);
            }
            ops.push(TOp { t, op: Op::Ev { key: k, st: 1 } });
            // a full sweep now and then: every key in every state from the current modifier state
            if rng.chance(1, 40) {
                let st = rng.below(3) as u8;
                let start = rng.below(NKEYS as u64) as usize;
                for d in 0..rng.range(8, 40) as usize {
                    let kk = ((start + d) % NKEYS) as u8;
                    if MOD_KEYS.iter().any(|m| kidx(*m) as u8 == kk) {
                        continue;
                    }
                    ops.push(TOp { t, op: Op::Ev { key: kk, st } });
                }
            }
        }
        while let Some(k) = held.pop() {
            t += rng.range(1, 50) * MS;
            ops.push(TOp { t, op: Op::Ev { key: k, st: 0 } });
        }
        if wire_ok {
            for _ in 0..8 {
                ops.push(TOp { t, op: Op::Pev });
            }
        }
        Trace { prop: self.pid().to_string(), cfg, ops, seed: 0, run, expect: None }
    }

    fn execute(&self, trace: &Trace, env: &mut Env) -> Outcome {
        let cfg = &trace.cfg;
        let c14 = self.prop == EProp::C14;
        let mut h = LogHash::new();
        let log: AskLog = Rc::new(RefCell::new(RecLog::default()));
        let mut rec_id: u8 = 0;
        let real_layouts = cfg.layout != 255;
        let mk = |id: u8| {
            if real_layouts {
                DynLayout::object((cfg.layout as usize + id as usize * 7) % NLAYOUT_OBJS)
            } else {
                DynLayout::Recorder { id, log: log.clone() }
            }
        };
        let mut sut = if cfg.obj == 1 {
            Sut::Ed(EventDecoder::new(mk(0), hc(cfg.map)))
        } else {
            Sut::Kb(KbAny::new(cfg.set, mk(0), hc(cfg.map)))
        };
        let mut refm = initial_mods();
        // C14 only: a twin Keyboard fed the same events gives the live modifier state of a
        // bare EventDecoder (which has no getter) without consulting the C04 model
        let mut twin = KbAny::new(cfg.set, DynLayout::Null, hc(cfg.map));
        let mut mode = cfg.map;
        let mut queue: VecDeque<KeyEvent> = VecDeque::new();
        let mut violation: Option<Violation> = None;
        let mut any_fault = false;
        let mut last_t = 0u64;
        // bookkeeping for ordering probes and fault accounting (model side only)
        let mut down_model = [false; NKEYS + 1];
        let mut since_press_setctrl = false;
        let mut since_press_layout = false;
        let mut since_press_mod = false;
        let mut seen_press = false;
        let mut caps_toggles = 0u32;

        macro_rules! fail {
            ($l:lifetime, $i:expr, $oracle:expr, $($arg:tt)*) => {{
                violation = Some(Violation { oracle: $oracle.to_string(), op_index: $i, detail: format!($($arg)*) });
                break $l;
            }};
        }

        'ops: for (i, top) in trace.ops.iter().enumerate() {
            env.cur_op = i;
            last_t = last_t.max(top.t);
            h.mix(top.op.kind() as u64);
            let mut event: Option<(KeyCode, KeyState, bool)> = None; // (key, state, via queue)
            match top.op {
                Op::Ev { key, st } => {
                    let k = ALL_KEYS[key as usize % NKEYS];
                    let s = STATES[st as usize % 3];
                    event = Some((k, s, false));
                }
                Op::Pev => {
                    if let Some(e) = queue.pop_front() {
                        env.cov.probe("obs_event_arrived_via_wire_and_queue");
                        event = Some((e.code, e.state, true));
                    }
                }
                Op::SetCtrl { map } => {
                    sut.set_ctrl(hc(map));
                    env.cov.api_calls += 1;
                    mode = map;
                    since_press_setctrl = true;
                    if down_model.iter().enumerate().any(|(j, d)| *d && (j >= NKEYS || !is_mod_key(ALL_KEYS[j]))) {
                        env.cov.probe("setctrl_while_ordinary_key_held");
                    }
                }
                Op::Layout { id } => {
                    if let Sut::Ed(d) = &mut sut {
                        d.change_layout(mk(id));
                        env.cov.api_calls += 1;
                        rec_id = id;
                        since_press_layout = true;
                        if down_model.iter().enumerate().any(|(j, d)| *d && (j >= NKEYS || !is_mod_key(ALL_KEYS[j]))) {
                            env.cov.probe("layout_change_while_ordinary_key_held");
                        }
                    }
                }
                Op::Byte { b } => {
                    if let Sut::Kb(k) = &mut sut {
                        let r = k.add_byte(b);
                        env.cov.api_calls += 1;
                        h.mix(Res::of(&r).hash());
                        if let Ok(Some(e)) = r {
                            queue.push_back(e);
                        }
                    }
                }
                Op::Frame { .. } | Op::Noise { .. } | Op::Edge { .. } => {
                    if let Sut::Kb(k) = &mut sut {
                        let (bits, via) = match top.op {
                            Op::Frame { sent, fault, via } => {
                                if fault != WFault::None {
                                    env.cov.fault("bad_frame_on_wire");
                                    any_fault = true;
                                }
                                (apply_wfault(sent, fault), via)
                            }
                            Op::Noise { word, via } => (word_bits(word).to_vec(), via),
                            Op::Edge { bit } => (vec![bit], Via::Bit),
                            _ => unreachable!(),
                        };
                        if via == Via::Word && bits.len() == 11 {
                            let r = k.add_word(bits_word(&bits));
                            env.cov.api_calls += 1;
                            if let Ok(Some(e)) = r {
                                queue.push_back(e);
                            }
                        } else {
                            for b in bits {
                                let r = k.add_bit(b);
                                env.cov.api_calls += 1;
                                if let Ok(Some(e)) = r {
                                    queue.push_back(e);
                                }
                            }
                        }
                    }
                }
                Op::Clear => {
                    if let Sut::Kb(k) = &mut sut {
                        k.clear();
                        env.cov.api_calls += 1;
                        if refm.lshift || refm.rshift || refm.lctrl || refm.rctrl || refm.lalt || refm.ralt {
                            env.cov.probe("clear_while_modifier_held");
                        }
                    }
                }
                _ => {}
            }
            if let Op::Byte { .. } = top.op {
                if i > 0 && matches!(trace.ops[i - 1].op, Op::Byte { .. } | Op::Frame { .. }) && trace.ops[i - 1].t == top.t {
                    // a byte injected at the same instant as the previous one is the generator's garbage
                    env.cov.fault("garbage_byte_on_wire");
                    any_fault = true;
                }
            }
            if let Some((k, s, _via_queue)) = event {
                let ki = kidx(k); // NKEYS = a key this harness does not know (no coverage cell)
                let live_before: Modifiers = if c14 { sut.mods().unwrap_or_else(|| twin.get_modifiers().clone()) } else { refm.clone() };
                let before = refm.clone(); // model side: used for coverage cells and probes only
                let _ = &live_before;
                // model-side fault accounting
                match s {
                    KeyState::Down => {
                        if down_model[ki] {
                            env.cov.fault("typematic_repeat");
                        }
                        down_model[ki] = true;
                    }
                    KeyState::Up => {
                        if !down_model[ki] {
                            env.cov.fault("up_without_down");
                            any_fault = true;
                        }
                        down_model[ki] = false;
                    }
                    KeyState::SingleShot => {
                        if is_mod_key(k) {
                            env.cov.fault("singleshot_of_modifier");
                            any_fault = true;
                        } else if !matches!(k, KeyCode::PowerOnTestOk | KeyCode::TooManyKeys) {
                            env.cov.fault("phantom_event");
                            any_fault = true;
                        }
                    }
                    #[allow(unreachable_patterns)]
                    _ => {}
                }
                log.borrow_mut().asked.clear();
                let r = sut.process(KeyEvent::new(k, s));
                env.cov.api_calls += 1;
                ref_mods_step(&mut refm, k, s);
                if c14 {
                    let _ = twin.process_keyevent(KeyEvent::new(k, s));
                    env.cov.api_calls += 1;
                }
                // the modifier state "now": the model's for C04, the decoder's own for C14
                let live: Modifiers = if c14 { sut.mods().unwrap_or_else(|| twin.get_modifiers().clone()) } else { refm.clone() };
                let asked: Vec<Asked> = log.borrow().asked.clone();
                h.mix((ki as u64) << 2 | sidx(s) as u64);
                h.mix(decoded_hash(&r));
                h.mix(mods_index(&refm) as u64);
                if ki < NKEYS {
                    let cell = ((mods_index(&before) * 2 + mode as usize) * NKEYS + ki) * 3 + sidx(s);
                    env.cov.hit("transitions_mods_x_mode_x_key_x_state", cell);
                    env.cov.hit("inputs_key_x_state", ki * 3 + sidx(s));
                }
                env.cov.hit("modifier_states_visited", mods_index(&refm));
                if let Some(mi) = MOD_KEYS.iter().position(|m| *m == k) {
                    if s != KeyState::SingleShot {
                        env.cov.hit("flag_transitions_from_state", mods_index(&before) * 18 + mi * 2 + (s == KeyState::Down) as usize);
                    }
                }
                if k == KeyCode::NumpadLock && s == KeyState::Down {
                    env.cov.probe(if before.rctrl2 { "numlock_pressed_under_hidden_ctrl" } else { "numlock_toggled" });
                }
                if k == KeyCode::CapsLock && s == KeyState::Down {
                    caps_toggles += 1;
                    if caps_toggles == 2 {
                        env.cov.probe("capslock_toggled_twice");
                    }
                }
                // lost break, seen from the model: a Down of a key the model believes held
                // is a repeat; a held key that never comes up is counted at the end
                if s == KeyState::Down && !is_mod_key(k) {
                    if seen_press {
                        if since_press_setctrl {
                            env.cov.probe("setctrl_between_two_presses");
                        }
                        if since_press_layout {
                            env.cov.probe("layout_change_between_two_presses");
                        }
                        if since_press_mod {
                            env.cov.probe("modifier_change_between_two_presses");
                        }
                    }
                    seen_press = true;
                    since_press_setctrl = false;
                    since_press_layout = false;
                    since_press_mod = false;
                }
                if before != refm {
                    since_press_mod = true;
                }

                if !c14 {
                    // the modifier set handed to the layout on a consulted press is the live one
                    for a in &asked {
                        env.cov.evaluations += 1;
                        // (a consultation during a modifier key's own press - its result is discarded -
                        // may see the state just before or just after that press)
                        if !mods_eq9(&a.mods, &refm) && !mods_eq9(&a.mods, &before) {
                            fail!(
                                'ops,
                                i,
                                "modifiers-passed-to-layout",
                                "{}({}) with modifier history giving [{}]: the layout was handed [{}]",
                                sname(s),
                                kname(k),
                                mods_show(&refm),
                                mods_show(&a.mods)
                            );
                        }
                    }
                } else {
                    env.cov.evaluations += 1;
                    match s {
                        KeyState::Up | KeyState::SingleShot => {
                            if !is_mod_key(k) && s == KeyState::Up {
                                env.cov.probe("release_of_ordinary_key_silent");
                            }
                            if r.is_some() {
                                fail!('ops, i, "release-and-oneshot-yield-nothing", "{}({}) yielded {}", sname(s), kname(k), decoded_show(&r));
                            }
                        }
                        KeyState::Down if is_mod_key(k) => {
                            // the one clause of the statement that names a history: "NumLock pressed
                            // while the hidden Pause-Ctrl is held" - held as the events say (its last
                            // event was a press), whatever the decoder's own record claims
                            if k == KeyCode::NumpadLock {
                                let want_h = if before.rctrl2 { KeyCode::PauseBreak } else { KeyCode::NumpadLock };
                                if r != Some(DecodedKey::RawKey(want_h)) {
                                    fail!(
                                        'ops,
                                        i,
                                        "numlock-press-follows-the-hidden-ctrl-events",
                                        "Down(NumpadLock) yielded {}, expected RawKey({}): the last RControl2 event delivered was {}",
                                        decoded_show(&r),
                                        kname(want_h),
                                        if before.rctrl2 { "a press" } else { "a release (or there was none)" }
                                    );
                                }
                            }
                            let want = if k == KeyCode::NumpadLock && live_before.rctrl2 { KeyCode::PauseBreak } else { k };
                            if r != Some(DecodedKey::RawKey(want)) {
                                fail!(
                                    'ops,
                                    i,
                                    "modifier-press-yields-raw-key",
                                    "Down({}) with [{}] yielded {}, expected RawKey({})",
                                    kname(k),
                                    mods_show(&live_before),
                                    decoded_show(&r),
                                    kname(want)
                                );
                            }
                        }
                        KeyState::Down => {
                            if lenient_key(k) {
                                env.cov.probe("lenient_key_pressed");
                            }
                            if refm != initial_mods() {
                                env.cov.probe("layout_consulted_with_nondefault_modifiers");
                            }
                            // exactly what the currently installed layout returned for (k, live modifiers, live mode)
                            if real_layouts {
                                // the installed object is one of the crate's own layouts: ask it directly
                                let want = mk(rec_id).map_keycode(k, &live, hc(mode));
                                env.cov.api_calls += 1;
                                env.cov.probe("real_layout_object_consulted");
                                if r != Some(want) && !(lenient_key(k) && r == Some(DecodedKey::RawKey(k))) {
                                    fail!(
                                        'ops,
                                        i,
                                        "press-yields-what-the-live-layout-returns",
                                        "Down({}) with modifiers [{}], mode map={}, installed layout {}: yielded {}, the layout object itself returns {}",
                                        kname(k),
                                        mods_show(&live),
                                        mode as u8,
                                        layout_obj_name((cfg.layout as usize + rec_id as usize * 7) % NLAYOUT_OBJS),
                                        decoded_show(&r),
                                        decoded_show(&Some(want))
                                    );
                                }
                            }
                            let matching = asked.iter().find(|a| {
                                a.recorder == rec_id && a.key == k && mods_eq9(&a.mods, &live) && a.map == mode && r == Some(a.answer)
                            });
                            let ok = real_layouts || matching.is_some() || (lenient_key(k) && r == Some(DecodedKey::RawKey(k)));
                            if !ok {
                                let asked_txt: Vec<String> = asked
                                    .iter()
                                    .map(|a| format!("recorder#{} asked ({}, [{}], map={}) -> {}", a.recorder, kname(a.key), mods_show(&a.mods), a.map as u8, decoded_show(&Some(a.answer))))
                                    .collect();
                                fail!(
                                    'ops,
                                    i,
                                    "press-yields-what-the-live-layout-returns",
                                    "Down({}) with modifiers [{}], mode map={}, installed recorder#{}: yielded {}; consultations during the call: {:?}",
                                    kname(k),
                                    mods_show(&live),
                                    mode as u8,
                                    rec_id,
                                    decoded_show(&r),
                                    asked_txt
                                );
                            }
                        }
                        #[allow(unreachable_patterns)]
                        _ => {} // a key state this harness does not know: the statement says nothing about it
                    }
                }
            }
            // after every operation, whatever it was
            env.cov.evaluations += 1;
            if let (false, Some(m)) = (c14, sut.mods()) {
                if !mods_eq9(&m, &refm) {
                    fail!(
                        'ops,
                        i,
                        "modifier-fold-over-event-history",
                        "after {}: get_modifiers() reports [{}], the delivered event history gives [{}]",
                        op_show(&top.op),
                        mods_show(&m),
                        mods_show(&refm)
                    );
                }
            }
            if c14 && sut.get_ctrl() != hc(mode) {
                fail!('ops, i, "get_ctrl_handling-returns-last-set", "get_ctrl_handling() = {:?}, last value set was map={}", sut.get_ctrl(), mode as u8);
            }
            if env.verbose {
                env.log.push(format!("op {} {} -> mods [{}] queue {}", i, op_show(&top.op), mods_show(&refm), queue.len()));
            }
        }
        // keys the model still believes down at the end were lost breaks
        let lost = down_model.iter().filter(|d| **d).count();
        for _ in 0..lost {
            env.cov.fault("lost_break");
            any_fault = true;
        }
        env.cov.sim_time_ns += last_t as u128;
        if any_fault {
            env.cov.faulty_runs += 1;
        } else {
            env.cov.fault_free_runs += 1;
        }
        if let Some(v) = &violation {
            h.mix(crate::rng::fnv(v.oracle.as_bytes()));
        }
        Outcome { violation, log_hash: h.0 }
    }

    fn primary_reach(&self) -> &'static str {
        "transitions_mods_x_mode_x_key_x_state"
    }
    fn required(&self, cov: &Cov, tier: Tier) -> Vec<Shortfall> {
        let mut out = Vec::new();
        require_full(cov, "inputs_key_x_state", &mut out);
        require_full(cov, "modifier_states_visited", &mut out);
        require_at_least(cov, "flag_transitions_from_state", if tier == Tier::Quick { 8000 } else { 9216 }, &mut out);
        require_at_least(cov, "transitions_mods_x_mode_x_key_x_state", if tier == Tier::Quick { 100_000 } else { 350_000 }, &mut out);
        require_probes(cov, &mut out);
        out
    }
    fn rule(&self) -> String {
        match self.prop {
            EProp::C04 => "one evaluation = get_modifiers() compared with the reference fold after one operation (any kind), or one modifier set handed to the recording layout compared with it; distinct_nontrivial = distinct (modifier state before, Ctrl mode, key, key state) transitions exercised (bitset of 380,928)".into(),
            EProp::C14 => "one evaluation = one process_keyevent result compared with the statement (None / RawKey / the token the installed recorder returned for exactly (key, live modifiers, live mode)), plus get_modifiers/get_ctrl_handling after every operation; distinct_nontrivial = distinct (modifier state, Ctrl mode, key, key state) cells exercised (bitset of 380,928)".into(),
        }
    }
    fn assumptions(&self) -> Vec<String> {
        vec![
            "sampled, not enumerated; reach bitsets report what was covered".into(),
            "trusted base: ref_mods_step (C04's statement as a fold), the recording layout stub".into(),
            "ScrollLock, LWin, RWin, RAlt2 presses may be answered by the layout or as their own raw key (deliberate leniency, DESIGN.md C14)".into(),
            "EventDecoder has no modifier getter: on it the modifier state is observed only through what the recording layout is handed".into(),
        ]
    }
    fn components_real(&self) -> Vec<&'static str> {
        vec!["Keyboard::{process_keyevent,get_modifiers,set_ctrl_handling,get_ctrl_handling,add_bit,add_word,add_byte,clear}", "EventDecoder::{process_keyevent,set_ctrl_handling,get_ctrl_handling,change_layout}", "ScancodeSet1/2 (behind Keyboard)"]
    }
    fn components_model(&self) -> Vec<&'static str> {
        vec!["typist at the event interface", "event fault injector (lost break, repeat, phantom)", "config task", "wire/byte input + event queue + main loop", "recording layout (stub)", "RefMods"]
    }
}
