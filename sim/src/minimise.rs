//! Delta-debugging over the op list, then per-op simplification. A candidate is
//! accepted only if the same oracle of the same property still fires.
use crate::op::*;
use crate::scen::*;

pub fn same_class(a: &Violation, b: &Violation) -> bool {
    a.oracle == b.oracle
}

pub fn minimise(trace: &Trace, target: &Violation, test: &mut dyn FnMut(&Trace) -> Option<Violation>) -> (Trace, Violation, usize) {
    minimise_impl(trace, target, test)
}

fn minimise_impl(trace: &Trace, target: &Violation, test: &mut dyn FnMut(&Trace) -> Option<Violation>) -> (Trace, Violation, usize) {
    let mut cur = trace.clone();
    let mut curv = target.clone();
    let mut tests = 0usize;
    // the budget is counted in executed ops, so that a 70,000-op trace (an endurance run)
    // costs no more to minimise than a 70-op one
    let spent = std::cell::Cell::new(0u64);
    const BUDGET_OPS: u64 = 120_000_000;
    let inner = test;
    let mut test = |t: &Trace| -> Option<Violation> {
        spent.set(spent.get() + t.ops.len() as u64 + 1);
        inner(t)
    };
    let over = || spent.get() > BUDGET_OPS;
    // everything after the failing op is irrelevant
    if curv.op_index + 1 < cur.ops.len() {
        let mut c = cur.clone();
        c.ops.truncate(curv.op_index + 1);
        tests += 1;
        if let Some(v) = test(&c) {
            if same_class(&v, target) {
                cur = c;
                curv = v;
            }
        }
    }
    // ddmin: remove chunks of decreasing size
    let mut chunk = (cur.ops.len() / 2).max(1);
    loop {
        let mut progress = false;
        let mut start = 0usize;
        while start < cur.ops.len() {
            let end = (start + chunk).min(cur.ops.len());
            let mut c = cur.clone();
            c.ops.drain(start..end);
            tests += 1;
            match test(&c) {
                Some(v) if same_class(&v, target) => {
                    cur = c;
                    curv = v;
                    progress = true;
                    // do not advance: the next chunk slid into place
                }
                _ => start = end,
            }
            if tests > 20_000 || over() {
                break;
            }
        }
        if tests > 20_000 || over() {
            break;
        }
        if chunk == 1 {
            if !progress {
                break;
            }
        } else {
            chunk = (chunk / 2).max(1);
        }
    }
    // per-op simplification: drop fault annotations, simplify arguments
    let mut changed = true;
    while changed && tests <= 40_000 && !over() {
        changed = false;
        for i in 0..cur.ops.len() {
            if over() {
                break;
            }
            let alts = simpler(&cur.ops[i].op);
            for a in alts {
                let mut c = cur.clone();
                c.ops[i].op = a;
                tests += 1;
                if let Some(v) = test(&c) {
                    if same_class(&v, target) {
                        cur = c;
                        curv = v;
                        changed = true;
                        break;
                    }
                }
            }
        }
    }
    // normalise timestamps (keeps order, drops irrelevant precision)
    for (i, o) in cur.ops.iter_mut().enumerate() {
        o.t = i as u64 * 1_000_000;
    }
    if let Some(v) = test(&cur) {
        if same_class(&v, target) {
            curv = v;
        }
    }
    (cur, curv, tests)
}

fn simpler(op: &Op) -> Vec<Op> {
    let mut v = Vec::new();
    match *op {
        Op::Key { pfx, code, brk, fault } => {
            if fault != BFault::None {
                v.push(Op::Key { pfx, code, brk, fault: BFault::None });
            }
            if pfx != 0 {
                v.push(Op::Key { pfx: 0, code, brk, fault });
            }
            if brk {
                v.push(Op::Key { pfx, code, brk: false, fault });
            }
        }
        Op::Frame { sent, fault, via } => {
            if fault != WFault::None {
                v.push(Op::Frame { sent, fault: WFault::None, via });
            }
            if let WFault::Flip(m) = fault {
                // fewer flipped bits
                for i in 0..11 {
                    if m & (1 << i) != 0 && m.count_ones() > 1 {
                        v.push(Op::Frame { sent, fault: WFault::Flip(m & !(1 << i)), via });
                    }
                }
            }
            if sent != 0 {
                v.push(Op::Frame { sent: 0, fault, via });
            }
        }
        Op::Noise { word, via } => {
            if word != 0 {
                v.push(Op::Noise { word: 0, via });
            }
        }
        _ => {}
    }
    v
}
