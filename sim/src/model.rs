//! Small executable reference models (the oracles' trusted base).
use crate::keys::*;
use crate::spec::Tables;
use pc_keyboard::{Error, KeyCode, KeyEvent, KeyState, Modifiers};

/// Observable result of one byte/bit/word fed to a decoding stage.
#[derive(Clone, Copy, PartialEq, Eq, Debug)]
pub enum Res {
    /// Ok(None)
    Pending,
    /// Ok(Some(KeyEvent))
    Ev(KeyCode, KeyState),
    /// Err(e)
    Err(Error),
}

impl Res {
    pub fn of(r: &Result<Option<KeyEvent>, Error>) -> Res {
        match r {
            Ok(None) => Res::Pending,
            Ok(Some(e)) => Res::Ev(e.code, e.state),
            Err(e) => Res::Err(*e),
        }
    }
    pub fn show(&self) -> String {
        match self {
            Res::Pending => "Ok(None)".to_string(),
            Res::Ev(k, s) => format!("{}({})", sname(*s), kname(*k)),
            Res::Err(e) => format!("Err({:?})", e),
        }
    }
    pub fn hash(&self) -> u64 {
        match self {
            Res::Pending => 1,
            Res::Ev(k, s) => 1000 + (kidx(*k) as u64) * 4 + sidx(*s) as u64,
            Res::Err(e) => match e {
                Error::BadStartBit => 2,
                Error::BadStopBit => 3,
                Error::ParityError => 4,
                Error::UnknownKeyCode => 5,
                #[allow(unreachable_patterns)]
                _ => 6,
            },
        }
    }
}

/// Result of the framing stage.
#[derive(Clone, Copy, PartialEq, Eq, Debug)]
pub enum FRes {
    Pending,
    Byte(u8),
    Err(Error),
}
impl FRes {
    pub fn of_bit(r: &Result<Option<u8>, Error>) -> FRes {
        match r {
            Ok(None) => FRes::Pending,
            Ok(Some(b)) => FRes::Byte(*b),
            Err(e) => FRes::Err(*e),
        }
    }
    pub fn of_word(r: &Result<u8, Error>) -> FRes {
        match r {
            Ok(b) => FRes::Byte(*b),
            Err(e) => FRes::Err(*e),
        }
    }
    pub fn show(&self) -> String {
        match self {
            FRes::Pending => "Ok(None)".to_string(),
            FRes::Byte(b) => format!("Ok({:02X})", b),
            FRes::Err(e) => format!("Err({:?})", e),
        }
    }
    pub fn hash(&self) -> u64 {
        match self {
            FRes::Pending => 1,
            FRes::Byte(b) => 0x100 + *b as u64,
            FRes::Err(e) => Res::Err(*e).hash(),
        }
    }
    /// verdict class: 0 accepted, 1 bad start, 2 bad stop, 3 parity
    pub fn class(&self) -> usize {
        match self {
            FRes::Byte(_) => 0,
            FRes::Err(Error::BadStartBit) => 1,
            FRes::Err(Error::BadStopBit) => 2,
            FRes::Err(Error::ParityError) => 3,
            _ => 0,
        }
    }
}

// ---------------------------------------------------------------- framer

/// Verdict on 11 bits, written from the PS/2 protocol description: bit 0 start
/// (must be 0), bits 1..=8 data LSB first, bit 9 odd parity, bit 10 stop (1).
pub fn frame_verdict(bits: &[bool]) -> FRes {
    assert_eq!(bits.len(), 11);
    let start = bits[0];
    let stop = bits[10];
    let ones = bits[1..=9].iter().filter(|b| **b).count();
    if start {
        FRes::Err(Error::BadStartBit)
    } else if !stop {
        FRes::Err(Error::BadStopBit)
    } else if ones % 2 == 0 {
        FRes::Err(Error::ParityError)
    } else {
        let mut v = 0u8;
        for i in 0..8 {
            if bits[1 + i] {
                v |= 1 << i;
            }
        }
        FRes::Byte(v)
    }
}

pub fn word_bits(w: u16) -> [bool; 11] {
    let mut b = [false; 11];
    for (i, x) in b.iter_mut().enumerate() {
        *x = (w >> i) & 1 != 0;
    }
    b
}
pub fn bits_word(bits: &[bool]) -> u16 {
    let mut w = 0u16;
    for (i, b) in bits.iter().enumerate() {
        if *b {
            w |= 1 << i;
        }
    }
    w
}

/// The frame a device puts on the wire for `byte`.
pub fn encode_frame(byte: u8) -> [bool; 11] {
    let mut b = [false; 11];
    b[0] = false;
    for i in 0..8 {
        b[1 + i] = (byte >> i) & 1 != 0;
    }
    b[9] = byte.count_ones() % 2 == 0;
    b[10] = true;
    b
}

#[derive(Clone, Default)]
pub struct RefFramer {
    pub bits: Vec<bool>,
}
impl RefFramer {
    pub fn new() -> RefFramer {
        RefFramer { bits: Vec::new() }
    }
    pub fn clear(&mut self) {
        self.bits.clear();
    }
    pub fn pending(&self) -> usize {
        self.bits.len()
    }
    /// index of the partial state among the 2047 prefixes of 0..=10 bits
    pub fn state_index(&self) -> usize {
        let n = self.bits.len();
        ((1usize << n) - 1) + bits_word(&self.bits) as usize
    }
    pub fn add_bit(&mut self, bit: bool) -> FRes {
        self.bits.push(bit);
        if self.bits.len() == 11 {
            let v = frame_verdict(&self.bits);
            self.bits.clear();
            v
        } else {
            FRes::Pending
        }
    }
}

// ---------------------------------------------------------------- scancode sets

/// Set 2 prefix contexts, in the order used for coverage cells.
#[derive(Clone, Copy, PartialEq, Eq, Debug)]
pub enum Ctx2 {
    Start = 0,
    E0 = 1,
    E1 = 2,
    F0 = 3,
    E0F0 = 4,
    E1F0 = 5,
}
pub const CTX2_NAMES: [&str; 6] = ["plain", "E0", "E1", "F0", "E0F0", "E1F0"];

pub struct RefSet2 {
    pub ctx: Ctx2,
}
impl RefSet2 {
    pub fn new() -> RefSet2 {
        RefSet2 { ctx: Ctx2::Start }
    }
    /// C01's grammar: optional E0 or E1, optional F0, one code byte.
    pub fn advance(&mut self, t: &Tables, b: u8) -> Res {
        let (table, up) = match self.ctx {
            Ctx2::Start => match b {
                0xE0 => {
                    self.ctx = Ctx2::E0;
                    return Res::Pending;
                }
                0xE1 => {
                    self.ctx = Ctx2::E1;
                    return Res::Pending;
                }
                0xF0 => {
                    self.ctx = Ctx2::F0;
                    return Res::Pending;
                }
                _ => (0usize, false),
            },
            Ctx2::E0 => {
                if b == 0xF0 {
                    self.ctx = Ctx2::E0F0;
                    return Res::Pending;
                }
                (1, false)
            }
            Ctx2::E1 => {
                if b == 0xF0 {
                    self.ctx = Ctx2::E1F0;
                    return Res::Pending;
                }
                (2, false)
            }
            Ctx2::F0 => (0, true),
            Ctx2::E0F0 => (1, true),
            Ctx2::E1F0 => (2, true),
        };
        let was_start = self.ctx == Ctx2::Start;
        self.ctx = Ctx2::Start;
        match t.set2[table][b as usize] {
            None => Res::Err(Error::UnknownKeyCode),
            Some(k) => {
                if was_start && (k == KeyCode::TooManyKeys || k == KeyCode::PowerOnTestOk) {
                    Res::Ev(k, KeyState::SingleShot)
                } else if up {
                    Res::Ev(k, KeyState::Up)
                } else {
                    Res::Ev(k, KeyState::Down)
                }
            }
        }
    }
}

pub const CTX1_NAMES: [&str; 3] = ["plain", "E0", "E1"];

pub struct RefSet1 {
    /// 0 none, 1 E0, 2 E1
    pub ctx: u8,
}
impl RefSet1 {
    pub fn new() -> RefSet1 {
        RefSet1 { ctx: 0 }
    }
    pub fn advance(&mut self, t: &Tables, b: u8) -> Res {
        if self.ctx == 0 {
            if b == 0xE0 {
                self.ctx = 1;
                return Res::Pending;
            }
            if b == 0xE1 {
                self.ctx = 2;
                return Res::Pending;
            }
        }
        let table = self.ctx as usize;
        self.ctx = 0;
        let code = b & 0x7F;
        let up = b & 0x80 != 0;
        match t.set1[table][code as usize] {
            None => Res::Err(Error::UnknownKeyCode),
            Some(k) => Res::Ev(k, if up { KeyState::Up } else { KeyState::Down }),
        }
    }
}

// ---------------------------------------------------------------- modifiers

pub fn initial_mods() -> Modifiers {
    Modifiers {
        lshift: false,
        rshift: false,
        lctrl: false,
        rctrl: false,
        numlock: true,
        capslock: false,
        lalt: false,
        ralt: false,
        rctrl2: false,
        ..mods_base()
    }
}
/// Whatever else a future `Modifiers` may carry (the nine flags are all the
/// statements speak about) comes from a new decoder's record, so that a field
/// added to the struct neither breaks the build nor enters any comparison made
/// through `mods_index`/`mods_eq9`.
#[allow(clippy::needless_update)]
pub fn mods_base() -> Modifiers {
    pc_keyboard::Keyboard::new(pc_keyboard::ScancodeSet2::new(), pc_keyboard::layouts::Us104Key, pc_keyboard::HandleControl::Ignore).get_modifiers().clone()
}
pub fn mods_eq9(a: &Modifiers, b: &Modifiers) -> bool {
    mods_index(a) == mods_index(b)
}

/// 9-bit index of a modifier record (for the reach bitset).
pub fn mods_index(m: &Modifiers) -> usize {
    (m.lshift as usize)
        | (m.rshift as usize) << 1
        | (m.lctrl as usize) << 2
        | (m.rctrl as usize) << 3
        | (m.numlock as usize) << 4
        | (m.capslock as usize) << 5
        | (m.lalt as usize) << 6
        | (m.ralt as usize) << 7
        | (m.rctrl2 as usize) << 8
}
pub fn mods_from_index(i: usize) -> Modifiers {
    Modifiers {
        lshift: i & 1 != 0,
        rshift: i & 2 != 0,
        lctrl: i & 4 != 0,
        rctrl: i & 8 != 0,
        numlock: i & 16 != 0,
        capslock: i & 32 != 0,
        lalt: i & 64 != 0,
        ralt: i & 128 != 0,
        rctrl2: i & 256 != 0,
        ..mods_base()
    }
}
pub fn mods_show(m: &Modifiers) -> String {
    let mut s = String::new();
    for (f, n) in [
        (m.lshift, "lshift"),
        (m.rshift, "rshift"),
        (m.lctrl, "lctrl"),
        (m.rctrl, "rctrl"),
        (m.numlock, "numlock"),
        (m.capslock, "capslock"),
        (m.lalt, "lalt"),
        (m.ralt, "ralt"),
        (m.rctrl2, "rctrl2"),
    ] {
        if f {
            if !s.is_empty() {
                s.push('+');
            }
            s.push_str(n);
        }
    }
    if s.is_empty() {
        s.push_str("none");
    }
    s
}

/// C04's statement, executable: the modifier record is a fold over the history.
pub fn ref_mods_step(m: &mut Modifiers, k: KeyCode, s: KeyState) {
    let held = match s {
        KeyState::Down => Some(true),
        KeyState::Up => Some(false),
        KeyState::SingleShot => None,
        #[allow(unreachable_patterns)]
        _ => None,
    };
    if let Some(h) = held {
        match k {
            KeyCode::LShift => m.lshift = h,
            KeyCode::RShift => m.rshift = h,
            KeyCode::LControl => m.lctrl = h,
            KeyCode::RControl => m.rctrl = h,
            KeyCode::LAlt => m.lalt = h,
            KeyCode::RAltGr => m.ralt = h,
            KeyCode::RControl2 => m.rctrl2 = h,
            KeyCode::CapsLock => {
                if h {
                    m.capslock = !m.capslock
                }
            }
            KeyCode::NumpadLock => {
                if h && !m.rctrl2 {
                    m.numlock = !m.numlock
                }
            }
            _ => {}
        }
    }
}

pub fn is_mod_key(k: KeyCode) -> bool {
    matches!(
        k,
        KeyCode::LShift
            | KeyCode::RShift
            | KeyCode::LControl
            | KeyCode::RControl
            | KeyCode::LAlt
            | KeyCode::RAltGr
            | KeyCode::RControl2
            | KeyCode::CapsLock
            | KeyCode::NumpadLock
    )
}
