//! The public `KeyCode` alphabet, in discriminant order (checked at start-up).
use pc_keyboard::{KeyCode, KeyEvent, KeyState};

pub const NKEYS: usize = 124;

pub const ALL_KEYS: [KeyCode; NKEYS] = [
    KeyCode::Escape,
    KeyCode::F1,
    KeyCode::F2,
    KeyCode::F3,
    KeyCode::F4,
    KeyCode::F5,
    KeyCode::F6,
    KeyCode::F7,
    KeyCode::F8,
    KeyCode::F9,
    KeyCode::F10,
    KeyCode::F11,
    KeyCode::F12,
    KeyCode::PrintScreen,
    KeyCode::SysRq,
    KeyCode::ScrollLock,
    KeyCode::PauseBreak,
    KeyCode::Oem8,
    KeyCode::Key1,
    KeyCode::Key2,
    KeyCode::Key3,
    KeyCode::Key4,
    KeyCode::Key5,
    KeyCode::Key6,
    KeyCode::Key7,
    KeyCode::Key8,
    KeyCode::Key9,
    KeyCode::Key0,
    KeyCode::OemMinus,
    KeyCode::OemPlus,
    KeyCode::Backspace,
    KeyCode::Insert,
    KeyCode::Home,
    KeyCode::PageUp,
    KeyCode::NumpadLock,
    KeyCode::NumpadDivide,
    KeyCode::NumpadMultiply,
    KeyCode::NumpadSubtract,
    KeyCode::Tab,
    KeyCode::Q,
    KeyCode::W,
    KeyCode::E,
    KeyCode::R,
    KeyCode::T,
    KeyCode::Y,
    KeyCode::U,
    KeyCode::I,
    KeyCode::O,
    KeyCode::P,
    KeyCode::Oem4,
    KeyCode::Oem6,
    KeyCode::Oem5,
    KeyCode::Oem7,
    KeyCode::Delete,
    KeyCode::End,
    KeyCode::PageDown,
    KeyCode::Numpad7,
    KeyCode::Numpad8,
    KeyCode::Numpad9,
    KeyCode::NumpadAdd,
    KeyCode::CapsLock,
    KeyCode::A,
    KeyCode::S,
    KeyCode::D,
    KeyCode::F,
    KeyCode::G,
    KeyCode::H,
    KeyCode::J,
    KeyCode::K,
    KeyCode::L,
    KeyCode::Oem1,
    KeyCode::Oem3,
    KeyCode::Return,
    KeyCode::Numpad4,
    KeyCode::Numpad5,
    KeyCode::Numpad6,
    KeyCode::LShift,
    KeyCode::Z,
    KeyCode::X,
    KeyCode::C,
    KeyCode::V,
    KeyCode::B,
    KeyCode::N,
    KeyCode::M,
    KeyCode::OemComma,
    KeyCode::OemPeriod,
    KeyCode::Oem2,
    KeyCode::RShift,
    KeyCode::ArrowUp,
    KeyCode::Numpad1,
    KeyCode::Numpad2,
    KeyCode::Numpad3,
    KeyCode::NumpadEnter,
    KeyCode::LControl,
    KeyCode::LWin,
    KeyCode::LAlt,
    KeyCode::Spacebar,
    KeyCode::RAltGr,
    KeyCode::RWin,
    KeyCode::Apps,
    KeyCode::RControl,
    KeyCode::ArrowLeft,
    KeyCode::ArrowDown,
    KeyCode::ArrowRight,
    KeyCode::Numpad0,
    KeyCode::NumpadPeriod,
    KeyCode::Oem9,
    KeyCode::Oem10,
    KeyCode::Oem11,
    KeyCode::Oem12,
    KeyCode::Oem13,
    KeyCode::PrevTrack,
    KeyCode::NextTrack,
    KeyCode::Mute,
    KeyCode::Calculator,
    KeyCode::Play,
    KeyCode::Stop,
    KeyCode::VolumeDown,
    KeyCode::VolumeUp,
    KeyCode::WWWHome,
    KeyCode::PowerOnTestOk,
    KeyCode::TooManyKeys,
    KeyCode::RControl2,
    KeyCode::RAlt2,
];

pub const KEY_NAMES: [&str; NKEYS] = [
    "Escape",
    "F1",
    "F2",
    "F3",
    "F4",
    "F5",
    "F6",
    "F7",
    "F8",
    "F9",
    "F10",
    "F11",
    "F12",
    "PrintScreen",
    "SysRq",
    "ScrollLock",
    "PauseBreak",
    "Oem8",
    "Key1",
    "Key2",
    "Key3",
    "Key4",
    "Key5",
    "Key6",
    "Key7",
    "Key8",
    "Key9",
    "Key0",
    "OemMinus",
    "OemPlus",
    "Backspace",
    "Insert",
    "Home",
    "PageUp",
    "NumpadLock",
    "NumpadDivide",
    "NumpadMultiply",
    "NumpadSubtract",
    "Tab",
    "Q",
    "W",
    "E",
    "R",
    "T",
    "Y",
    "U",
    "I",
    "O",
    "P",
    "Oem4",
    "Oem6",
    "Oem5",
    "Oem7",
    "Delete",
    "End",
    "PageDown",
    "Numpad7",
    "Numpad8",
    "Numpad9",
    "NumpadAdd",
    "CapsLock",
    "A",
    "S",
    "D",
    "F",
    "G",
    "H",
    "J",
    "K",
    "L",
    "Oem1",
    "Oem3",
    "Return",
    "Numpad4",
    "Numpad5",
    "Numpad6",
    "LShift",
    "Z",
    "X",
    "C",
    "V",
    "B",
    "N",
    "M",
    "OemComma",
    "OemPeriod",
    "Oem2",
    "RShift",
    "ArrowUp",
    "Numpad1",
    "Numpad2",
    "Numpad3",
    "NumpadEnter",
    "LControl",
    "LWin",
    "LAlt",
    "Spacebar",
    "RAltGr",
    "RWin",
    "Apps",
    "RControl",
    "ArrowLeft",
    "ArrowDown",
    "ArrowRight",
    "Numpad0",
    "NumpadPeriod",
    "Oem9",
    "Oem10",
    "Oem11",
    "Oem12",
    "Oem13",
    "PrevTrack",
    "NextTrack",
    "Mute",
    "Calculator",
    "Play",
    "Stop",
    "VolumeDown",
    "VolumeUp",
    "WWWHome",
    "PowerOnTestOk",
    "TooManyKeys",
    "RControl2",
    "RAlt2",
];

/// Identity of a key as the crate numbers it (works for keys this list does not know).
#[inline]
pub fn kid(k: KeyCode) -> usize {
    k as u8 as usize
}

static IDX: std::sync::OnceLock<[u8; 256]> = std::sync::OnceLock::new();

/// Position of a key in ALL_KEYS, or NKEYS for a key this list does not know
/// (a variant added to the crate later). Used for coverage cells and names only,
/// never for identity.
#[inline]
pub fn kidx(k: KeyCode) -> usize {
    let t = IDX.get_or_init(|| {
        let mut t = [NKEYS as u8; 256];
        for (i, k) in ALL_KEYS.iter().enumerate() {
            t[*k as u8 as usize] = i as u8;
        }
        t
    });
    t[k as u8 as usize] as usize
}

pub fn kname(k: KeyCode) -> String {
    let i = kidx(k);
    if i < NKEYS {
        KEY_NAMES[i].to_string()
    } else {
        format!("{:?}", k)
    }
}

pub fn key_by_name(n: &str) -> Option<KeyCode> {
    KEY_NAMES.iter().position(|x| *x == n).map(|i| ALL_KEYS[i])
}

pub const STATES: [KeyState; 3] = [KeyState::Up, KeyState::Down, KeyState::SingleShot];

pub fn sidx(s: KeyState) -> usize {
    match s {
        KeyState::Up => 0,
        KeyState::Down => 1,
        KeyState::SingleShot => 2,
        #[allow(unreachable_patterns)]
        _ => 2, // a state this harness does not know shares the one-shot cell
    }
}
pub fn sname(s: KeyState) -> &'static str {
    match s {
        KeyState::Up => "Up",
        KeyState::Down => "Down",
        KeyState::SingleShot => "SingleShot",
        #[allow(unreachable_patterns)]
        _ => "OtherState",
    }
}
pub fn state_by_name(n: &str) -> Option<KeyState> {
    match n {
        "Up" => Some(KeyState::Up),
        "Down" => Some(KeyState::Down),
        "SingleShot" => Some(KeyState::SingleShot),
        _ => None,
    }
}

pub fn ev(k: KeyCode, s: KeyState) -> KeyEvent {
    KeyEvent::new(k, s)
}

/// Start-up self-check: the list is the enum, in order.
pub fn selfcheck() -> Result<(), String> {
    for (i, k) in ALL_KEYS.iter().enumerate() {
        if kidx(*k) != i {
            return Err(format!("ALL_KEYS[{}] = {:?} resolves to index {}", i, k, kidx(*k)));
        }
        if format!("{:?}", k) != KEY_NAMES[i] {
            return Err(format!("KEY_NAMES[{}] = {} but Debug says {:?}", i, KEY_NAMES[i], k));
        }
    }
    Ok(())
}
