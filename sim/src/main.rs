//! pcsim - deterministic simulation with fault injection for pc-keyboard.
//!
//!   pcsim <id> quick|thorough        run the check for one property
//!   pcsim replay <file>              re-execute a replay file in this process
//!   pcsim show <id> <run>            print the trace of one run of the batch
//!   pcsim hashes <id> <n>            per-run log hashes (determinism self-test)
//!
//! exit 0 = held on everything explored, 1 = violation, 2 = harness error.
#![allow(dead_code, unused_imports, unused_mut, unused_variables)]
mod cover;
mod dynobj;
mod json;
mod keys;
mod known;
mod minimise;
mod model;
mod op;
mod rng;
mod scen;
mod scen_bits;
mod scen_bytes;
mod scen_events;
mod scen_full;
mod scen_pairs;
mod spec;
mod typist;
mod world;

use cover::Cov;
use json::J;
use known::Known;
use op::Trace;
use scen::*;
use spec::Tables;
use std::cell::RefCell;
use std::collections::BTreeSet;
use std::panic::{catch_unwind, AssertUnwindSafe};
use std::sync::atomic::{AtomicU64, Ordering};
use std::sync::Mutex;
use std::time::Instant;

thread_local! {
    static LAST_PANIC: RefCell<String> = RefCell::new(String::new());
    static IN_GUARD: std::cell::Cell<bool> = std::cell::Cell::new(false);
}

fn install_panic_hook() {
    std::panic::set_hook(Box::new(|info| {
        let msg = if let Some(s) = info.payload().downcast_ref::<&str>() {
            s.to_string()
        } else if let Some(s) = info.payload().downcast_ref::<String>() {
            s.clone()
        } else {
            "panic".to_string()
        };
        let loc = info.location().map(|l| format!("{}:{}", l.file(), l.line())).unwrap_or_default();
        if !IN_GUARD.with(|g| g.get()) {
            eprintln!("HARNESS-ERROR: panic inside the simulator: {} at {}", msg, loc);
            std::process::exit(2);
        }
        // one line: the message ends up in replay files and evidence
        let msg = msg.split_whitespace().collect::<Vec<_>>().join(" ");
        LAST_PANIC.with(|p| *p.borrow_mut() = format!("{} at {}", msg, loc));
    }));
}

fn scenario(id: &str) -> Option<Box<dyn Scenario>> {
    use scen_bytes::{BProp, Bytes};
    Some(match id {
        "C01" => Box::new(Bytes { prop: BProp::C01 }),
        "C02" => Box::new(Bytes { prop: BProp::C02 }),
        "C07" => Box::new(Bytes { prop: BProp::C07 }),
        "C04" => Box::new(scen_events::Events { prop: scen_events::EProp::C04 }),
        "C14" => Box::new(scen_events::Events { prop: scen_events::EProp::C14 }),
        "C19" => Box::new(scen_pairs::Pairs),
        "C13" => Box::new(scen_pairs::Dual),
        "C18" => Box::new(scen_full::Full),
        "C08" => Box::new(scen_full::Chaos),
        "C05" => Box::new(scen_bits::Bits { prop: scen_bits::WProp::C05 }),
        "C06" => Box::new(scen_bits::Bits { prop: scen_bits::WProp::C06 }),
        _ => return None,
    })
}

/// Execute with the panic guard: an unwind out of a real call is a violation
/// of the property being checked (the call did not return the required value).
fn exec_guarded(scn: &dyn Scenario, trace: &Trace, env: &mut Env) -> Outcome {
    IN_GUARD.with(|g| g.set(true));
    let r = catch_unwind(AssertUnwindSafe(|| scn.execute(trace, env)));
    IN_GUARD.with(|g| g.set(false));
    match r {
        Ok(o) => o,
        Err(_) => {
            let msg = LAST_PANIC.with(|p| p.borrow().clone());
            // a panic inside the harness itself is a harness error, not a finding
            const HARNESS_FILES: [&str; 12] = ["src/main.rs", "src/scen", "src/model.rs", "src/op.rs", "src/world.rs", "src/typist.rs", "src/dynobj.rs", "src/cover.rs", "src/spec.rs", "src/keys.rs", "src/minimise.rs", "src/known.rs"];
            let loc = msg.rsplit(" at ").next().unwrap_or("");
            if HARNESS_FILES.iter().any(|f| loc.starts_with(f)) && !loc.contains("/repo/") {
                eprintln!("HARNESS-ERROR: panic inside the simulator: {}", msg);
                std::process::exit(2);
            }
            Outcome {
                violation: Some(Violation { oracle: "no-panic".into(), op_index: env.cur_op, detail: format!("real call panicked: {}", msg) }),
                log_hash: 0xDEAD,
            }
        }
    }
}

struct Failure {
    run: u64,
    trace: Trace,
    violation: Violation,
}

struct Batch {
    cov: Cov,
    known_hits: BTreeSet<usize>,
    failure: Option<Failure>,
    per_run_hashes: Vec<(u64, u64)>,
}

fn run_batch(scn: &dyn Scenario, tables: &Tables, known: &Known, seed: u64, tier: Tier, nruns: u64, threads: usize, keep_hashes: bool) -> Batch {
    // triage children execute a sub-range of the batch
    let from: u64 = std::env::var("PCSIM_FROM").ok().and_then(|s| s.parse().ok()).unwrap_or(0);
    let next = AtomicU64::new(from);
    let min_fail = AtomicU64::new(u64::MAX);
    let results: Mutex<Vec<(Cov, BTreeSet<usize>, Option<Failure>, Vec<(u64, u64)>)>> = Mutex::new(Vec::new());
    const CHUNK: u64 = 32;
    // hang watchdog: a real call that never returns (an endless loop) shows as a worker that
    // stays in one run far longer than any run takes; the run index is reported through a
    // side file and the process exits with status 3 (the supervisor turns that into a violation)
    let slots: Vec<AtomicU64> = (0..threads).map(|_| AtomicU64::new(0)).collect();
    let done = std::sync::atomic::AtomicBool::new(false);
    let slot_counter = AtomicU64::new(0);
    std::thread::scope(|s| {
        s.spawn(|| {
            let limit = hang_limit();
            let mut seen: Vec<(u64, Instant)> = slots.iter().map(|_| (0u64, Instant::now())).collect();
            while !done.load(Ordering::Relaxed) {
                std::thread::sleep(std::time::Duration::from_millis(200));
                for (i, sl) in slots.iter().enumerate() {
                    let v = sl.load(Ordering::Relaxed);
                    if v != seen[i].0 {
                        seen[i] = (v, Instant::now());
                    } else if v != 0 && seen[i].1.elapsed() > limit {
                        report_hang(v - 1);
                    }
                }
            }
        });
        let handles: Vec<_> = (0..threads).map(|_| {
            s.spawn(|| {
                let my_slot = slot_counter.fetch_add(1, Ordering::Relaxed) as usize;
                let mut env = Env::new(tables, known);
                scn.declare(&mut env.cov);
                let mut fail: Option<Failure> = None;
                let mut hashes = Vec::new();
                loop {
                    let start = next.fetch_add(CHUNK, Ordering::Relaxed);
                    if start >= nruns {
                        break;
                    }
                    for run in start..(start + CHUNK).min(nruns) {
                        if run > min_fail.load(Ordering::Relaxed) {
                            continue;
                        }
                        slots[my_slot].store(run + 1, Ordering::Relaxed);
                        let rs = rng::run_seed(seed, scn.id(), run);
                        let mut r = rng::Rng::new(rs);
                        let mut trace = scn.generate(&mut r, run, tier);
                        trace.seed = seed;
                        trace.run = run;
                        let out = exec_guarded(scn, &trace, &mut env);
                        env.cov.runs += 1;
                        let mut lh = rng::LogHash(out.log_hash);
                        lh.mix(run);
                        env.cov.log_hash_sum = env.cov.log_hash_sum.wrapping_add(lh.0);
                        if keep_hashes {
                            hashes.push((run, out.log_hash));
                        }
                        if run < 3 {
                            let mut text = String::new();
                            for o in trace.ops.iter().take(12) {
                                text.push_str(&format!("t={} {}; ", o.t, op::op_show(&o.op)));
                            }
                            env.cov.samples.push(format!(
                                "run {} cfg set={} xt={} layout={} map={} rate_class={} ops={}: {}...",
                                run,
                                trace.cfg.set,
                                trace.cfg.xt as u8,
                                trace.cfg.layout,
                                trace.cfg.map as u8,
                                trace.cfg.rate,
                                trace.ops.len(),
                                text
                            ));
                        }
                        if let Some(v) = out.violation {
                            min_fail.fetch_min(run, Ordering::Relaxed);
                            if fail.as_ref().map(|f| run < f.run).unwrap_or(true) {
                                fail = Some(Failure { run, trace, violation: v });
                            }
                        }
                    }
                }
                slots[my_slot].store(0, Ordering::Relaxed);
                results.lock().unwrap().push((env.cov, env.known_hits, fail, hashes));
            })
        }).collect();
        for h in handles {
            let _ = h.join();
        }
        done.store(true, Ordering::Relaxed);
    });
    let mut cov = Cov::new();
    scn.declare(&mut cov);
    let mut hits = BTreeSet::new();
    let mut failure: Option<Failure> = None;
    let mut hashes = Vec::new();
    let mut samples = Vec::new();
    for (c, h, f, hs) in results.into_inner().unwrap() {
        cov.merge(&c);
        samples.extend(c.samples.iter().cloned());
        hits.extend(h);
        hashes.extend(hs);
        if let Some(f) = f {
            if failure.as_ref().map(|g| f.run < g.run).unwrap_or(true) {
                failure = Some(f);
            }
        }
    }
    samples.sort();
    cov.samples = samples;
    hashes.sort();
    Batch { cov, known_hits: hits, failure, per_run_hashes: hashes }
}

fn root() -> String {
    std::env::var("PCSIM_ROOT").unwrap_or_else(|_| ".".to_string())
}

fn evidence(scn: &dyn Scenario, tier: Tier, seed: u64, b: &Batch, wall: f64, violations: u64, known: &Known, notes: &[String], shortfalls: &[Shortfall], extra: Vec<(String, J)>) -> J {
    let cov = &b.cov;
    let mut c = J::obj();
    let prim = cov.reach.get(scn.primary_reach()).map(|x| x.count()).unwrap_or(0);
    c.set("evaluations", J::u(cov.evaluations.max(1)));
    c.set("distinct_nontrivial", J::u(prim));
    c.set("rule", J::s(&scn.rule()));
    c.set("samples", J::Arr(cov.samples.iter().map(|s| J::s(s)).collect()));
    c.set("exhaustive", J::Bool(false));
    c.set("runs", J::u(cov.runs));
    c.set("runs_per_hour", J::u(if wall > 0.0 { (cov.runs as f64 / wall * 3600.0) as u64 } else { 0 }));
    c.set("seeds_per_hour", J::u(if wall > 0.0 { (cov.runs as f64 / wall * 3600.0) as u64 } else { 0 }));
    c.set("api_calls", J::u(cov.api_calls));
    c.set("sim_time_s", J::Num(cov.sim_time_ns as f64 / 1e9));
    c.set("fault_free_runs", J::u(cov.fault_free_runs));
    c.set("faulty_runs", J::u(cov.faulty_runs));
    c.set("faults_fired", J::from_counts(&cov.faults));
    c.set("probes", J::from_counts(&cov.probes));
    if !cov.counters.is_empty() {
        c.set("counters", J::from_counts(&cov.counters));
    }
    let mut reach = J::obj();
    for (k, v) in &cov.reach {
        reach.set(k, J::Arr(vec![J::u(v.count()), J::u(v.len as u64)]));
    }
    c.set("reach", reach);
    c.set("primary_reach_measure", J::s(scn.primary_reach()));
    let mut comp = J::obj();
    comp.set("real", J::strs(&scn.components_real()));
    comp.set("model", J::strs(&scn.components_model()));
    c.set("components", comp);
    c.set(
        "known_findings_hit",
        J::Arr(b.known_hits.iter().map(|i| J::s(&format!("{} {}", known.findings[*i].id, known.findings[*i].sig))).collect()),
    );
    c.set("readme_errata", J::Arr(notes.iter().map(|s| J::s(s)).collect()));
    c.set("shortfalls", J::Arr(shortfalls.iter().map(|s| J::s(&s.what)).collect()));
    let mut dh = rng::LogHash(cov.log_hash_sum);
    for (_, bs) in &cov.reach {
        dh.mix(bs.hash());
    }
    c.set("determinism_hash", J::s(&format!("{:016x}", dh.0)));
    for (k, v) in extra {
        c.set(&k, v);
    }
    let mut e = J::obj();
    e.set("property_id", J::s(scn.id()));
    e.set("tier", J::s(if tier == Tier::Quick { "quick" } else { "thorough" }));
    e.set("seed", J::u(seed));
    e.set("level", J::s(scn.level()));
    e.set("coverage", c);
    e.set("assumptions", J::Arr(scn.assumptions().iter().map(|s| J::s(s)).collect()));
    e.set("wall_s", J::Num(wall));
    e.set("violations", J::u(violations));
    e
}

fn harness_error(msg: &str) -> ! {
    eprintln!("HARNESS-ERROR: {}", msg);
    std::process::exit(2);
}

fn load_known() -> Known {
    let path = format!("{}/known_findings.txt", root());
    match Known::load(&path) {
        Ok(k) => k,
        Err(e) => harness_error(&format!("cannot read known findings: {}", e)),
    }
}

/// How long one run (or one replay) may take before it counts as "a real call did not return".
/// The longest legitimate runs (endurance stratum) take well under a second.
fn hang_limit() -> std::time::Duration {
    let s: u64 = std::env::var("PCSIM_HANG_SECS").ok().and_then(|s| s.parse().ok()).unwrap_or(30);
    std::time::Duration::from_secs(s)
}

fn hang_file() -> String {
    format!("{}/replays/hang-{}.tmp", root(), std::env::var("PCSIM_SUPERVISOR").unwrap_or_else(|_| "0".into()))
}

fn report_hang(run: u64) -> ! {
    let _ = std::fs::create_dir_all(format!("{}/replays", root()));
    let _ = std::fs::write(hang_file(), run.to_string());
    eprintln!("pcsim: run {} has not returned within {:?}: a real call does not return", run, hang_limit());
    std::process::exit(3);
}

fn tier_name(t: Tier) -> &'static str {
    if t == Tier::Quick {
        "quick"
    } else {
        "thorough"
    }
}

/// Run ourselves as a child. A real call that overflows the stack or otherwise aborts
/// the process cannot be caught by the unwind guard; the supervisor sees it as a child
/// killed by a signal. Returns Ok(exit code) or Err(description of the abnormal end).
fn run_child(args: &[&str], envs: &[(&str, String)], quiet: bool) -> Result<i32, String> {
    let exe = std::env::current_exe().unwrap_or_else(|_| "pcsim".into());
    let mut c = std::process::Command::new(exe);
    c.args(args).env("PCSIM_CHILD", "1").env("PCSIM_SUPERVISOR", std::process::id().to_string());
    for (k, v) in envs {
        c.env(k, v);
    }
    if quiet {
        c.stdout(std::process::Stdio::null()).stderr(std::process::Stdio::null());
    }
    match c.status() {
        Ok(st) => match st.code() {
            Some(code) if code == 0 || code == 1 || code == 2 => Ok(code),
            Some(code) => Err(format!("exit status {}", code)),
            None => {
                use std::os::unix::process::ExitStatusExt;
                Err(format!("killed by signal {}", st.signal().unwrap_or(0)))
            }
        },
        Err(e) => harness_error(&format!("cannot start child process: {}", e)),
    }
}

/// The batch child died abnormally: find the lowest run that does it, cut its trace down to
/// the shortest prefix that still does it, and report that as the violation.
fn crash_triage(id: &str, tier: Tier, how: &str) -> i32 {
    let scn = scenario(id).unwrap_or_else(|| harness_error("unknown property"));
    let seed: u64 = std::env::var("VERIF_SEED").ok().and_then(|s| s.trim().parse().ok()).unwrap_or(1);
    let nruns: u64 = std::env::var("PCSIM_RUNS").ok().and_then(|s| s.parse().ok()).unwrap_or_else(|| scn.runs(tier));
    println!("the batch process ended abnormally ({}): a real call aborted or did not return; locating the run", how);
    let crashes = |from: u64, to: u64| -> bool {
        run_child(&[id, tier_name(tier)], &[("PCSIM_FROM", from.to_string()), ("PCSIM_RUNS", to.to_string()), ("PCSIM_TRIAGE", "1".into())], true).is_err()
    };
    let my_hang_file = format!("{}/replays/hang-{}.tmp", root(), std::process::id());
    let hung_run: Option<u64> = std::fs::read_to_string(&my_hang_file).ok().and_then(|t| t.trim().parse().ok());
    let _ = std::fs::remove_file(&my_hang_file);
    let run = if let (true, Some(r)) = (how.contains("status 3"), hung_run) {
        r
    } else {
        let (mut lo, mut hi) = (0u64, nruns);
        if !crashes(lo, hi) {
            harness_error("the batch process died abnormally but a second execution did not (not deterministic?)");
        }
        while hi - lo > 1 {
            let mid = lo + (hi - lo) / 2;
            if crashes(lo, mid) {
                hi = mid;
            } else {
                lo = mid;
            }
        }
        lo
    };
    let hang = how.contains("status 3");
    if hang {
        // wall-clock verdicts must not depend on how busy the machine is: the run is executed
        // again, alone, with three times the limit, before anything is reported
        let mut r0 = rng::Rng::new(rng::run_seed(seed, scn.id(), run));
        let mut t0 = scn.generate(&mut r0, run, tier);
        t0.seed = seed;
        t0.run = run;
        let _ = std::fs::create_dir_all(format!("{}/replays", root()));
        let tmp0 = format!("{}/replays/{}-{}-{}.confirm.tmp", root(), id, seed, run);
        let _ = std::fs::write(&tmp0, t0.render());
        let r = run_child(&["replay", &tmp0], &[("PCSIM_QUIET", "1".into()), ("PCSIM_HANG_SECS", "100".into())], true);
        let _ = std::fs::remove_file(&tmp0);
        let _ = std::fs::remove_file(&my_hang_file);
        if r.is_ok() {
            eprintln!("pcsim: run {} exceeded the time limit inside the batch but completes when executed alone: the machine is overloaded, not the code stuck", run);
            return 4; // the supervisor repeats the batch with a ten times longer limit
        }
    }
    // replays of a hanging trace are cut off early
    std::env::set_var("PCSIM_HANG_SECS", if hang { "5" } else { "30" });
    let mut r = rng::Rng::new(rng::run_seed(seed, scn.id(), run));
    let mut trace = scn.generate(&mut r, run, tier);
    trace.seed = seed;
    trace.run = run;
    let _ = std::fs::create_dir_all(format!("{}/replays", root()));
    let _ = std::fs::create_dir_all(format!("{}/evidence", root()));
    let tmp = format!("{}/replays/{}-{}-{}.tmp", root(), id, seed, run);
    let replay_crashes = |t: &Trace| -> bool {
        if std::fs::write(&tmp, t.render()).is_err() {
            return false;
        }
        run_child(&["replay", &tmp], &[("PCSIM_QUIET", "1".into())], true).is_err()
    };
    if !replay_crashes(&trace) {
        let _ = std::fs::remove_file(&tmp);
        harness_error(&format!("run {} aborts inside the batch but its trace replays without aborting", run));
    }
    // shortest aborting prefix
    let orig = trace.ops.len();
    let (mut a, mut b) = (0usize, trace.ops.len());
    while b - a > 1 {
        let m = a + (b - a) / 2;
        let mut t = trace.clone();
        t.ops.truncate(m);
        if replay_crashes(&t) {
            b = m;
        } else {
            a = m;
        }
    }
    trace.ops.truncate(b);
    // drop leading ops in chunks while it still aborts (bounded: each hanging replay costs seconds)
    let mut budget = if hang { 24 } else { 400 };
    let mut chunk = trace.ops.len() / 2;
    while chunk >= 1 && budget > 0 {
        let mut i = 0;
        while i + chunk < trace.ops.len() {
            let mut t = trace.clone();
            t.ops.drain(i..i + chunk);
            budget -= 1;
            if replay_crashes(&t) {
                trace = t;
            } else {
                i += chunk;
            }
            if budget == 0 {
                break;
            }
        }
        chunk /= 2;
    }
    if hang {
        // the cut-down trace must still not return under the generous limit; otherwise keep the full one
        std::env::set_var("PCSIM_HANG_SECS", "30");
        if !replay_crashes(&trace) {
            let mut r0 = rng::Rng::new(rng::run_seed(seed, scn.id(), run));
            trace = scn.generate(&mut r0, run, tier);
            trace.seed = seed;
            trace.run = run;
        }
    }
    let _ = std::fs::remove_file(&tmp);
    let _ = std::fs::remove_file(&my_hang_file);
    let detail = if hang {
        format!("op {} does not return: the process executing this trace had to be stopped after the time limit (endless loop or unbounded recursion inside a real call)", trace.ops.len().saturating_sub(1))
    } else {
        format!("the process executing this trace was {} (stack overflow or abort inside a real call) at op {}", how, trace.ops.len().saturating_sub(1))
    };
    trace.expect = Some(op::Expect { oracle: if hang { "call-returns".into() } else { "no-abort".into() }, detail: detail.clone() });
    let path = format!("{}/replays/{}-{}-{}.replay", root(), id, seed, run);
    let abs = std::fs::canonicalize(root()).map(|p| p.join(format!("replays/{}-{}-{}.replay", id, seed, run))).unwrap_or_else(|_| path.clone().into());
    if std::fs::write(&path, trace.render()).is_err() {
        harness_error("cannot write the replay file");
    }
    println!("violation in run {} (oracle {}): {} ops cut down to {}", run, if hang { "call-returns" } else { "no-abort" }, orig, trace.ops.len());
    println!("  {}", detail);
    // evidence for the failing batch (the child could not write it)
    let mut c = J::obj();
    c.set("evaluations", J::u(run + 1));
    c.set("distinct_nontrivial", J::u(2));
    c.set("rule", J::s("the batch process aborted inside a real call (not an unwind): the supervisor bisected the run index with child processes and cut the trace to the shortest aborting prefix; evaluations = runs up to and including the aborting one; distinct_nontrivial is a placeholder (the aborting process takes its coverage with it)"));
    c.set("samples", J::Arr(trace.ops.iter().take(12).map(|o| J::s(&op::op_show(&o.op))).collect()));
    c.set("exhaustive", J::Bool(false));
    c.set("violation", J::s(&detail));
    c.set("replay_file", J::s(&abs.display().to_string()));
    let mut e = J::obj();
    e.set("property_id", J::s(id));
    e.set("tier", J::s(tier_name(tier)));
    e.set("seed", J::u(seed));
    e.set("level", J::s(scn.level()));
    e.set("coverage", c);
    e.set("assumptions", J::Arr(scn.assumptions().iter().map(|s| J::s(s)).collect()));
    e.set("wall_s", J::Num(0.0));
    e.set("violations", J::u(1));
    let adhoc = std::env::var("PCSIM_RUNS").is_ok();
    let evpath = if adhoc { format!("{}/evidence/{}.adhoc.json", root(), id) } else { format!("{}/evidence/{}.json", root(), id) };
    let _ = std::fs::write(&evpath, e.render());
    println!("VIOLATION property={} replay={}", id, abs.display());
    1
}

fn cmd_check(id: &str, tier: Tier) -> i32 {
    if std::env::var("PCSIM_CHILD").is_err() {
        if scenario(id).is_none() {
            harness_error(&format!("no check for property {}", id));
        }
        return match run_child(&[id, tier_name(tier)], &[], false) {
            Ok(code) => code,
            Err(how) => match crash_triage(id, tier, &how) {
                4 => match run_child(&[id, tier_name(tier)], &[("PCSIM_HANG_SECS", "300".into())], false) {
                    Ok(code) => code,
                    Err(how2) => harness_error(&format!("the batch process ended abnormally twice ({}; {}) although the suspected run completes on its own", how, how2)),
                },
                code => code,
            },
        };
    }
    let scn = match scenario(id) {
        Some(s) => s,
        None => harness_error(&format!("no check for property {}", id)),
    };
    let seed: u64 = std::env::var("VERIF_SEED").ok().and_then(|s| s.trim().parse().ok()).unwrap_or(1);
    let threads: usize = std::env::var("PCSIM_THREADS")
        .ok()
        .and_then(|s| s.parse().ok())
        .unwrap_or_else(|| std::thread::available_parallelism().map(|n| n.get()).unwrap_or(4).min(16));
    let nruns: u64 = std::env::var("PCSIM_RUNS").ok().and_then(|s| s.parse().ok()).unwrap_or_else(|| scn.runs(tier));
    if let Err(e) = keys::selfcheck() {
        harness_error(&e);
    }
    if let Err(e) = spec::selfcheck() {
        harness_error(&format!("specification tables failed their self-check: {}", e));
    }
    let tables = spec::tables();
    let notes = tables.notes.clone();
    let known = load_known();
    let t0 = Instant::now();
    println!("pcsim: property={} tier={:?} VERIF_SEED={} runs={} threads={}", id, tier, seed, nruns, threads);
    let mut b = run_batch(scn.as_ref(), tables, &known, seed, tier, nruns, threads, false);
    if std::env::var("PCSIM_TRIAGE").is_ok() {
        return 0;
    }
    let mut extra: Vec<(String, J)> = Vec::new();
    // batch-level history check (only meaningful if no run failed)
    if b.failure.is_none() {
        for mut t in scn.batch_traces(&b.cov) {
            t.seed = seed;
            let mut e = Env::new(tables, &known);
            scn.declare(&mut e.cov);
            if let Some(v) = exec_guarded(scn.as_ref(), &t, &mut e).violation {
                b.failure = Some(Failure { run: t.run, trace: t, violation: v });
                break;
            }
        }
    }
    // ad-hoc run counts (PCSIM_RUNS) never overwrite the registered evidence file
    let adhoc = std::env::var("PCSIM_RUNS").is_ok();
    let evpath = if adhoc { format!("{}/evidence/{}.adhoc.json", root(), id) } else { format!("{}/evidence/{}.json", root(), id) };
    let _ = std::fs::create_dir_all(format!("{}/evidence", root()));
    let _ = std::fs::create_dir_all(format!("{}/replays", root()));
    for i in &b.known_hits {
        let f = &known.findings[*i];
        println!("KNOWN-FINDING: property={} {} {} :: {}", f.prop, f.id, f.sig, f.what);
    }
    if let Some(f) = b.failure.take() {
        // minimise, write the replay file, replay it in a fresh process
        let mut scratch = Env::new(tables, &known);
        scn.declare(&mut scratch.cov);
        let target = f.violation.clone();
        let mut test = |t: &Trace| -> Option<Violation> {
            let mut e = Env::new(tables, &known);
            scn.declare(&mut e.cov);
            exec_guarded(scn.as_ref(), t, &mut e).violation
        };
        let orig_len = f.trace.ops.len();
        let (mut min, minv, tests) = minimise::minimise(&f.trace, &target, &mut test);
        min.expect = Some(op::Expect { oracle: minv.oracle.clone(), detail: minv.detail.clone() });
        let runtag = if f.run == u64::MAX { "batch".to_string() } else { f.run.to_string() };
        let path = format!("{}/replays/{}-{}-{}.replay", root(), id, seed, runtag);
        let abs = std::fs::canonicalize(root()).map(|p| p.join(format!("replays/{}-{}-{}.replay", id, seed, runtag))).unwrap_or_else(|_| path.clone().into());
        if let Err(e) = std::fs::write(&path, min.render()) {
            harness_error(&format!("cannot write {}: {}", path, e));
        }
        println!(
            "violation in run {} (oracle {}): {} ops minimised to {} in {} re-executions",
            f.run,
            minv.oracle,
            orig_len,
            min.ops.len(),
            tests
        );
        println!("  {}", minv.detail);
        // fresh-process replay must reproduce exactly
        let reproduced = matches!(run_child(&["replay", &path], &[("PCSIM_QUIET", "1".into())], true), Ok(1));
        let wall = t0.elapsed().as_secs_f64();
        extra.push(("violation".into(), J::s(&format!("run {} oracle {}: {}", f.run, minv.oracle, minv.detail))));
        extra.push(("replay_file".into(), J::s(&abs.display().to_string())));
        extra.push(("minimised_ops".into(), J::u(min.ops.len() as u64)));
        extra.push(("original_ops".into(), J::u(orig_len as u64)));
        let ev = evidence(scn.as_ref(), tier, seed, &b, wall, 1, &known, &notes, &[], extra);
        let _ = std::fs::write(&evpath, ev.render());
        if !reproduced {
            // The in-process minimiser executes thousands of candidates in one address space. If the
            // code under test keeps state outside its objects (a `static` memo), a candidate can fail
            // only because of what an earlier candidate left behind, and the minimised file is then
            // not a replay. Redo the work with one fresh process per execution, starting from the run
            // as it was generated; failing that, from the batch prefix on one thread (also a pure
            // function of seed and code).
            println!("note: {} does not reproduce in a fresh process - state outside the objects under test is suspected; minimising again with one fresh process per execution", path);
            match fresh_process_minimise(&f.trace, &target, &path) {
                Some((n_ops, n_tests, detail)) => {
                    println!("violation in run {} (oracle {}): {} ops minimised to {} in {} fresh-process executions", f.run, target.oracle, orig_len, n_ops, n_tests);
                    println!("  {}", detail);
                }
                None => match batch_prefix_replay(id, tier, seed, nruns, &path) {
                    Some(upto) => {
                        println!("violation reproduced by executing runs 0..={} of the batch in order on one thread in a fresh process (replay file of kind batch-prefix)", upto);
                    }
                    None => harness_error(&format!("replay of {} in a fresh process did not reproduce the violation, neither did the unminimised run nor the batch on one thread", path)),
                },
            }
        }
        println!("VIOLATION property={} replay={}", id, abs.display());
        return 1;
    }
    let short = scn.required(&b.cov, tier);
    let wall = t0.elapsed().as_secs_f64();
    let ev = evidence(scn.as_ref(), tier, seed, &b, wall, 0, &known, &notes, &short, extra);
    if let Err(e) = std::fs::write(&evpath, ev.render()) {
        harness_error(&format!("cannot write {}: {}", evpath, e));
    }
    if tier == Tier::Thorough && !adhoc {
        // keep a copy of the thorough evidence next to the quick one that is committed
        let _ = std::fs::create_dir_all(format!("{}/evidence/thorough", root()));
        let _ = std::fs::write(format!("{}/evidence/thorough/{}.json", root(), id), ev.render());
    }
    let prim = b.cov.reach.get(scn.primary_reach()).map(|x| (x.count(), x.len)).unwrap_or((0, 0));
    println!(
        "ok: {} runs, {} compared results, {}/{} {} reached, {} faults fired, {:.1}s",
        b.cov.runs,
        b.cov.evaluations,
        prim.0,
        prim.1,
        scn.primary_reach(),
        b.cov.faults.values().sum::<u64>(),
        wall
    );
    if !short.is_empty() && std::env::var("PCSIM_RUNS").is_err() {
        for s in &short {
            eprintln!("HARNESS-ERROR: coverage shortfall: {}", s.what);
        }
        return 2;
    }
    0
}


/// Run `replay <path>` in a fresh process and return the violation it printed, if any.
fn replay_child_capture(path: &str) -> Option<(String, String)> {
    let exe = std::env::current_exe().unwrap_or_else(|_| "pcsim".into());
    let out = std::process::Command::new(exe)
        .args(["replay", path])
        .env("PCSIM_CHILD", "1")
        .env("PCSIM_QUIET", "1")
        .env("PCSIM_SUPERVISOR", std::process::id().to_string())
        .output()
        .ok()?;
    if out.status.code() != Some(1) {
        return None;
    }
    let text = String::from_utf8_lossy(&out.stdout);
    for l in text.lines() {
        if let Some(rest) = l.strip_prefix("replay: op ") {
            // "replay: op N oracle X: detail"
            let mut it = rest.splitn(2, " oracle ");
            let _n = it.next()?;
            let tail = it.next()?;
            let mut jt = tail.splitn(2, ": ");
            let oracle = jt.next()?.to_string();
            let detail = jt.next().unwrap_or("").to_string();
            return Some((oracle, detail));
        }
    }
    None
}

/// Delta debugging with one fresh process per candidate (slow, bounded): used only when the
/// in-process result does not replay. Leaves the minimised replay file at `path`.
fn fresh_process_minimise(orig: &Trace, target: &Violation, path: &str) -> Option<(usize, usize, String)> {
    let tmp = format!("{}.cand", path);
    let t_start = Instant::now();
    let budget = std::time::Duration::from_secs(150);
    let mut execs = 0usize;
    let mut run = |t: &Trace| -> Option<Violation> {
        if t_start.elapsed() > budget {
            return None;
        }
        let mut c = t.clone();
        c.expect = None;
        if std::fs::write(&tmp, c.render()).is_err() {
            return None;
        }
        execs += 1;
        let (oracle, detail) = replay_child_capture(&tmp)?;
        Some(Violation { oracle, op_index: t.ops.len().saturating_sub(1), detail })
    };
    // the run exactly as generated must fail on its own, else this route is closed
    let first = run(orig)?;
    if !minimise::same_class(&first, target) {
        let _ = std::fs::remove_file(&tmp);
        return None;
    }
    let mut start = orig.clone();
    if target.op_index + 1 < start.ops.len() {
        let mut c = start.clone();
        c.ops.truncate(target.op_index + 1);
        if let Some(v) = run(&c) {
            if minimise::same_class(&v, target) {
                start = c;
            }
        }
    }
    let tgt = Violation { oracle: target.oracle.clone(), op_index: start.ops.len().saturating_sub(1), detail: first.detail.clone() };
    let (mut min, minv, _) = minimise::minimise(&start, &tgt, &mut run);
    let _ = std::fs::remove_file(&tmp);
    // settle the expectation with a last fresh execution of exactly what is written
    min.expect = None;
    std::fs::write(path, min.render()).ok()?;
    let (oracle, detail) = match replay_child_capture(path) {
        Some(x) => x,
        None => {
            // the budget ran out mid-way and the last accepted candidate is what we keep
            let _ = minv;
            let mut o = orig.clone();
            o.expect = None;
            std::fs::write(path, o.render()).ok()?;
            min = o;
            replay_child_capture(path)?
        }
    };
    if oracle != target.oracle {
        return None;
    }
    min.expect = Some(op::Expect { oracle, detail: detail.clone() });
    std::fs::write(path, min.render()).ok()?;
    if replay_child_capture(path).is_none() {
        return None;
    }
    Some((min.ops.len(), execs, detail))
}

/// Last resort for state that outlives a run: execute the batch in run order on one thread in a
/// fresh process; the first failing run index R makes "runs 0..=R on one thread" the replay.
fn batch_prefix_replay(id: &str, tier: Tier, seed: u64, nruns: u64, path: &str) -> Option<u64> {
    let exe = std::env::current_exe().unwrap_or_else(|_| "pcsim".into());
    let find = |upto: u64| -> Option<u64> {
        let out = std::process::Command::new(&exe)
            .args(["prefix", id, tier_name(tier), &upto.to_string()])
            .env("PCSIM_CHILD", "1")
            .env("VERIF_SEED", seed.to_string())
            .env("PCSIM_SUPERVISOR", std::process::id().to_string())
            .output()
            .ok()?;
        if out.status.code() != Some(1) {
            return None;
        }
        let text = String::from_utf8_lossy(&out.stdout);
        text.lines().find_map(|l| l.strip_prefix("prefix: first failing run ").and_then(|r| r.trim().parse().ok()))
    };
    let r = find(nruns.saturating_sub(1))?;
    // must be stable: the same prefix again, in another fresh process
    if find(r)? != r {
        return None;
    }
    let text = format!("# pcsim replay v1 property={} origin: seed={} batch prefix\nbatch-prefix property={} tier={} seed={} upto={}\n", id, seed, id, tier_name(tier), seed, r);
    std::fs::write(path, text).ok()?;
    Some(r)
}

/// `prefix <id> <tier> <upto>`: runs 0..=upto of the batch, in order, on this one thread.
fn cmd_prefix(id: &str, tier: Tier, upto: u64) -> i32 {
    let scn = scenario(id).unwrap_or_else(|| harness_error("unknown property"));
    let seed: u64 = std::env::var("VERIF_SEED").ok().and_then(|s| s.trim().parse().ok()).unwrap_or(1);
    let tables = spec::tables();
    let known = load_known();
    let b = run_batch(scn.as_ref(), tables, &known, seed, tier, upto + 1, 1, false);
    match b.failure {
        Some(f) => {
            println!("prefix: first failing run {}", f.run);
            println!("prefix: oracle {}: {}", f.violation.oracle, f.violation.detail);
            1
        }
        None => {
            println!("prefix: no violation in runs 0..={}", upto);
            0
        }
    }
}

fn cmd_replay(path: &str) -> i32 {
    if std::env::var("PCSIM_CHILD").is_err() {
        return match run_child(&["replay", path], &[], false) {
            Ok(code) => code,
            Err(how) => {
                let prop = std::fs::read_to_string(path).ok().and_then(|t| Trace::parse(&t).ok()).map(|t| t.prop).unwrap_or_default();
                let _ = std::fs::remove_file(format!("{}/replays/hang-{}.tmp", root(), std::process::id()));
                println!("replay: the process executing the trace ended abnormally ({}) - a real call aborted or did not return", how);
                println!("VIOLATION property={} replay={}", prop, path);
                1
            }
        };
    }
    let text = match std::fs::read_to_string(path) {
        Ok(t) => t,
        Err(e) => harness_error(&format!("{}: {}", path, e)),
    };
    if let Some(l) = text.lines().find(|l| l.starts_with("batch-prefix ")) {
        let get = |k: &str| l.split_whitespace().find_map(|w| w.strip_prefix(&format!("{}=", k)).map(|v| v.to_string()));
        let (prop, tier, seed, upto) = match (get("property"), get("tier"), get("seed"), get("upto").and_then(|u| u.parse::<u64>().ok())) {
            (Some(p), Some(t), Some(s), Some(u)) => (p, t, s, u),
            _ => harness_error(&format!("{}: malformed batch-prefix line", path)),
        };
        let tier = if tier == "thorough" { Tier::Thorough } else { Tier::Quick };
        std::env::set_var("VERIF_SEED", &seed);
        let rc = cmd_prefix(&prop, tier, upto);
        if rc == 1 {
            println!("VIOLATION property={} replay={}", prop, path);
        } else {
            println!("replay: no violation");
        }
        return rc;
    }
    let trace = match Trace::parse(&text) {
        Ok(t) => t,
        Err(e) => harness_error(&format!("{}: {}", path, e)),
    };
    let scn = match scenario(&trace.prop) {
        Some(s) => s,
        None => harness_error(&format!("no check for property {}", trace.prop)),
    };
    let tables = spec::tables();
    let known = load_known();
    // hang watchdog for the single run
    std::thread::spawn(|| {
        std::thread::sleep(hang_limit());
        report_hang(0);
    });
    let mut env = Env::new(tables, &known);
    scn.declare(&mut env.cov);
    env.verbose = std::env::var("PCSIM_QUIET").is_err();
    let out = exec_guarded(scn.as_ref(), &trace, &mut env);
    for l in &env.log {
        println!("{}", l);
    }
    match out.violation {
        Some(v) => {
            if let Some(e) = &trace.expect {
                if e.oracle != v.oracle || e.detail != v.detail {
                    println!("replay produced a different violation:\n  got      oracle={} {}\n  expected oracle={} {}", v.oracle, v.detail, e.oracle, e.detail);
                    return 2;
                }
            }
            println!("replay: op {} oracle {}: {}", v.op_index, v.oracle, v.detail);
            println!("VIOLATION property={} replay={}", trace.prop, path);
            1
        }
        None => {
            println!("replay: no violation");
            0
        }
    }
}

fn cmd_hashes(id: &str, n: u64, tier: Tier) -> i32 {
    let scn = scenario(id).unwrap_or_else(|| harness_error("unknown property"));
    let seed: u64 = std::env::var("VERIF_SEED").ok().and_then(|s| s.trim().parse().ok()).unwrap_or(1);
    let threads: usize = std::env::var("PCSIM_THREADS").ok().and_then(|s| s.parse().ok()).unwrap_or(16);
    let tables = spec::tables();
    let known = load_known();
    let b = run_batch(scn.as_ref(), tables, &known, seed, tier, n, threads, true);
    for (r, h) in &b.per_run_hashes {
        println!("{} {:016x}", r, h);
    }
    for (k, v) in &b.cov.reach {
        println!("reach {} {} {:016x}", k, v.count(), v.hash());
    }
    println!("batch {:016x} runs {} evals {} calls {}", b.cov.log_hash_sum, b.cov.runs, b.cov.evaluations, b.cov.api_calls);
    for (k, v) in &b.cov.faults {
        println!("fault {} {}", k, v);
    }
    for (k, v) in &b.cov.probes {
        println!("probe {} {}", k, v);
    }
    if let Some(f) = &b.failure {
        println!("failure run {} oracle {} {}", f.run, f.violation.oracle, f.violation.detail);
    }
    0
}

fn cmd_show(id: &str, run: u64, tier: Tier) -> i32 {
    let scn = scenario(id).unwrap_or_else(|| harness_error("unknown property"));
    let seed: u64 = std::env::var("VERIF_SEED").ok().and_then(|s| s.trim().parse().ok()).unwrap_or(1);
    let mut r = rng::Rng::new(rng::run_seed(seed, scn.id(), run));
    let mut t = scn.generate(&mut r, run, tier);
    t.seed = seed;
    t.run = run;
    print!("{}", t.render());
    0
}

fn main() {
    install_panic_hook();
    let args: Vec<String> = std::env::args().skip(1).collect();
    let tier_of = |s: Option<&String>| match s.map(|x| x.as_str()) {
        Some("thorough") => Tier::Thorough,
        Some("quick") | None => match std::env::var("VERIF_TIER").ok().as_deref() {
            Some("thorough") if s.is_none() => Tier::Thorough,
            _ => Tier::Quick,
        },
        Some(o) => harness_error(&format!("unknown tier {}", o)),
    };
    let code = match args.first().map(|s| s.as_str()) {
        Some("replay") => cmd_replay(args.get(1).unwrap_or_else(|| harness_error("replay needs a file"))),
        Some("hashes") => cmd_hashes(
            args.get(1).unwrap_or_else(|| harness_error("hashes <id> <n>")),
            args.get(2).and_then(|s| s.parse().ok()).unwrap_or(2000),
            tier_of(args.get(3)),
        ),
        Some("show") => cmd_show(
            args.get(1).unwrap_or_else(|| harness_error("show <id> <run>")),
            args.get(2).and_then(|s| s.parse().ok()).unwrap_or(0),
            tier_of(args.get(3)),
        ),
        Some("prefix") => cmd_prefix(
            args.get(1).unwrap_or_else(|| harness_error("prefix <id> <tier> <upto>")),
            tier_of(args.get(2)),
            args.get(3).and_then(|s| s.parse().ok()).unwrap_or(0),
        ),
        Some(id) if id.starts_with('C') => cmd_check(id, tier_of(args.get(1))),
        _ => {
            eprintln!("usage: pcsim <id> quick|thorough | replay <file> | show <id> <run> | hashes <id> <n>");
            2
        }
    };
    std::process::exit(code);
}
