//! What every scenario (one per claimed property) provides to the batch driver.
use crate::cover::Cov;
use crate::known::Known;
use crate::op::Trace;
use crate::rng::Rng;
use crate::spec::Tables;
use std::collections::BTreeSet;

#[derive(Clone, Copy, PartialEq, Eq, Debug)]
pub enum Tier {
    Quick,
    Thorough,
}

#[derive(Clone, Debug)]
pub struct Violation {
    /// which oracle of the property fired (the violation class kept during minimisation)
    pub oracle: String,
    pub op_index: usize,
    pub detail: String,
}

pub struct Outcome {
    pub violation: Option<Violation>,
    /// rolling hash of the run's full event log (ops, real results, oracle answers)
    pub log_hash: u64,
}

/// Per-worker environment handed to an executor.
pub struct Env<'a> {
    pub tables: &'a Tables,
    pub known: &'a Known,
    pub cov: Cov,
    /// indices into known.findings that were hit
    pub known_hits: BTreeSet<usize>,
    /// op being executed (read by the panic guard)
    pub cur_op: usize,
    /// human-readable log of the run, only filled when `verbose`
    pub verbose: bool,
    pub log: Vec<String>,
}

impl<'a> Env<'a> {
    pub fn new(tables: &'a Tables, known: &'a Known) -> Env<'a> {
        Env { tables, known, cov: Cov::new(), known_hits: BTreeSet::new(), cur_op: 0, verbose: false, log: Vec::new() }
    }
    /// A disagreement between the real code and an oracle. If it is a listed
    /// known finding it is recorded and None is returned (the run goes on);
    /// otherwise it is the run's violation.
    pub fn disagree(&mut self, prop: &str, oracle: &str, sig: &str, op_index: usize, detail: String) -> Option<Violation> {
        if let Some(i) = self.known.matches(prop, sig) {
            self.known_hits.insert(i);
            return None;
        }
        Some(Violation { oracle: oracle.to_string(), op_index, detail: format!("{} [{}]", detail, sig) })
    }
}

pub struct Shortfall {
    pub what: String,
}

pub trait Scenario: Sync {
    fn id(&self) -> &'static str;
    fn level(&self) -> &'static str;
    /// number of runs in a batch
    fn runs(&self, tier: Tier) -> u64;
    /// declare reach bitsets, fault kinds and probes (so zero counts show up)
    fn declare(&self, cov: &mut Cov);
    fn generate(&self, rng: &mut Rng, run: u64, tier: Tier) -> Trace;
    fn execute(&self, trace: &Trace, env: &mut Env) -> Outcome;
    /// reach measure whose population is `distinct_nontrivial`
    fn primary_reach(&self) -> &'static str;
    /// (measure, must-saturate-to) pairs and probes that must be non-zero: a
    /// shortfall is a harness error, never a pass
    fn required(&self, cov: &Cov, tier: Tier) -> Vec<Shortfall>;
    fn rule(&self) -> String;
    fn assumptions(&self) -> Vec<String>;
    fn components_real(&self) -> Vec<&'static str>;
    fn components_model(&self) -> Vec<&'static str>;
    /// post-batch history check over the merged coverage: candidate witness
    /// traces, which the driver hands to the ordinary executor
    fn batch_traces(&self, _cov: &Cov) -> Vec<Trace> {
        Vec::new()
    }
}

pub fn require_full(cov: &Cov, name: &'static str, out: &mut Vec<Shortfall>) {
    if let Some(b) = cov.reach.get(name) {
        let c = b.count();
        if c != b.len as u64 {
            out.push(Shortfall { what: format!("reach measure {} covered {}/{} (must saturate)", name, c, b.len) });
        }
    } else {
        out.push(Shortfall { what: format!("reach measure {} missing", name) });
    }
}
pub fn require_at_least(cov: &Cov, name: &'static str, n: u64, out: &mut Vec<Shortfall>) {
    let c = cov.reach.get(name).map(|b| b.count()).unwrap_or(0);
    if c < n {
        out.push(Shortfall { what: format!("reach measure {} covered {} < {}", name, c, n) });
    }
}
pub fn require_probes(cov: &Cov, out: &mut Vec<Shortfall>) {
    for (k, v) in &cov.probes {
        // probes named obs_* depend on what the code under test answered; they are
        // reported but never required (a changed tree must not turn into exit 2)
        if *v == 0 && !k.starts_with("obs_") {
            out.push(Shortfall { what: format!("probe {} never hit", k) });
        }
    }
    for (k, v) in &cov.faults {
        if *v == 0 {
            out.push(Shortfall { what: format!("fault kind {} never fired", k) });
        }
    }
}

/// Run-length stratum: one run in 128 is a marathon (40 times the drawn length), so
/// that defects which need a long history - a counter that wraps after hundreds of
/// frames or events - are within reach; the rest stay short and diverse.
pub fn marathon(run: u64, n: usize) -> usize {
    if run % 128 == 127 {
        n * 40
    } else {
        n
    }
}
pub fn is_marathon(run: u64) -> bool {
    run % 128 == 127
}

/// Endurance stratum: one run in 8209 (a prime, so that it falls on every combination of
/// the other run-index strata) is a whole day at the keyboard.
pub fn is_endurance(run: u64) -> bool {
    run % 8209 == 8208
}
