//! Byte-level, fault-free scenarios whose oracles use no key table at all:
//! C19 (make/break pairing and injectivity on a table-free keyboard) and C13
//! (one keyboard, two hosts: Set 2 direct, and Set 1 behind the simulated i8042).
use crate::cover::Cov;
use crate::dynobj::*;
use crate::keys::*;
use crate::model::*;
use crate::op::*;
use crate::rng::{LogHash, Rng};
use crate::scen::*;
use crate::spec::translatable;
use crate::typist::*;
use crate::world::*;
use pc_keyboard::{KeyCode, KeyState, Keyboard, ScancodeSet};
use std::collections::BTreeMap;

fn decode_fresh(set: u8, bytes: &[u8]) -> (bool, Res, u64) {
    // -> (all bytes before the last returned Ok(None), result of the last byte, calls)
    let mut d = DynSet::new(set);
    let mut ok = true;
    let mut last = Res::Pending;
    for (i, b) in bytes.iter().enumerate() {
        let r = Res::of(&d.advance_state(*b));
        if i + 1 < bytes.len() {
            if r != Res::Pending {
                ok = false;
            }
        } else {
            last = r;
        }
    }
    (ok, last, bytes.len() as u64)
}

// ------------------------------------------------------------------ C19

pub struct Pairs;

fn c19_domain(cfg: &Cfg, pfx: u8, code: u8) -> bool {
    if pfx > 2 {
        return false;
    }
    if cfg.set == 2 {
        !matches!(code, 0xE0 | 0xE1 | 0xF0)
    } else {
        code <= 0x7F && !(pfx == 0 && (code == 0x60 || code == 0x61))
    }
}
const C19_DOMAIN_SIZE: u64 = 2 * (3 * 128 - 2) + 2 * (3 * 253);

fn c19_cell(set: u8, pfx: u8, code: u8, brk: bool) -> usize {
    ((((set as usize - 1) * 3 + pfx as usize) * 256 + code as usize) << 1) | brk as usize
}

impl Scenario for Pairs {
    fn id(&self) -> &'static str {
        "C19"
    }
    fn level(&self) -> &'static str {
        "exploration"
    }
    fn runs(&self, tier: Tier) -> u64 {
        match tier {
            Tier::Quick => 300000,
            Tier::Thorough => 16000000,
        }
    }
    fn declare(&self, cov: &mut Cov) {
        cov.declare("physical_key_x_direction", 2 * 3 * 256 * 2);
        // (set, physical key, key it decodes to as a press): the batch-level injectivity history
        cov.declare("make_image_set_x_phys_x_key", 2 * 768 * NKEYS);
        cov.declare("keys_seen_down_and_up", 2 * NKEYS);
        cov.probe_declare("two_keys_held_at_once");
        cov.probe_declare("typematic_repeat");
        cov.probe_declare("obs_unknown_key_pressed_and_released");
        cov.probe_declare("obs_status_code_pressed");
        cov.probe_declare("quiescent_point_checked");
        cov.probe_declare("keyboard_clear_in_the_session");
    }
    fn generate(&self, rng: &mut Rng, run: u64, tier: Tier) -> Trace {
        let mut cfg = Cfg::default();
        cfg.set = if run % 2 == 0 { 2 } else { 1 };
        cfg.xt = cfg.set == 1;
        cfg.rate = 0;
        cfg.obj = ((run / 16) % 2) as u8; // 1: the session decoder is built through Default
        let k = run / 2;
        let stratum = ((k % 3) as u8, ((k / 3) % 16) as u8);
        let style = match k % 8 {
            0 | 4 => Style::Mash,
            1 => Style::Bursts,
            2 => Style::Chords,
            _ => Style::Unknown,
        };
        let p = TypistParams { style, actions: if is_endurance(run) { rng.range(400_000, 450_000) as usize } else { marathon(run, rng.range(6, if tier == Tier::Quick { 60 } else { 150 }) as usize) }, stratum };
        let mut ops = type_session(rng, &cfg, &p);
        // a table-free keyboard also has the keys 00 and AA
        if cfg.set == 2 && rng.chance(1, 4) {
            let code = if rng.bool() { 0x00 } else { 0xAA };
            let t = ops.last().map(|o| o.t + MS).unwrap_or(0);
            ops.push(TOp { t, op: Op::Key { pfx: 0, code, brk: false, fault: BFault::None } });
            ops.push(TOp { t: t + MS, op: Op::Key { pfx: 0, code, brk: true, fault: BFault::None } });
        }
        ops.retain(|o| match o.op {
            Op::Key { pfx, code, .. } => c19_domain(&cfg, pfx, code),
            _ => false,
        });
        // the host's watchdog may call Keyboard::clear() at any moment - before a sequence,
        // between its bytes, with a few stray bits in the shift register; no fault, and it must not
        // change what a sequence means
        for o in ops.iter_mut() {
            if let Op::Key { pfx, code, brk, .. } = o.op {
                if rng.chance(1, 10) {
                    o.op = Op::Key { pfx, code, brk, fault: BFault::ClearAt(rng.range(0, 2) as u8) };
                }
            }
        }
        Trace { prop: "C19".into(), cfg, ops, seed: 0, run, expect: None }
    }
    fn execute(&self, trace: &Trace, env: &mut Env) -> Outcome {
        let cfg = &trace.cfg;
        let set = cfg.set;
        let mut h = LogHash::new();
        let mut violation: Option<Violation> = None;
        // what this session observed: physical key -> result of its make sequence
        let mut make_of: BTreeMap<(u8, u8), Res> = BTreeMap::new();
        // host's view: key -> physical key that holds it down
        let mut host_held: BTreeMap<usize, (u8, u8)> = BTreeMap::new();
        let mut typist_held: Vec<(u8, u8)> = Vec::new();
        let mut last_t = 0;
        // the host's decoder for the whole session (one long-lived object), next to the
        // fresh decoder that judges each sequence on its own
        let mut session = if cfg.obj == 1 { DynSet::via_default(set) } else { DynSet::new(set) };
        // and the same bytes through a long-lived Keyboard, whose clear() the watchdog calls
        let mut session_kb = KbAny::new(set, DynLayout::object(cfg.layout as usize % NLAYOUT_OBJS), pc_keyboard::HandleControl::Ignore);
        'ops: for (i, top) in trace.ops.iter().enumerate() {
            env.cur_op = i;
            last_t = top.t.max(last_t);
            let (pfx, code, brk) = match top.op {
                Op::Key { pfx, code, brk, .. } => (pfx, code, brk),
                _ => continue,
            };
            let clear_at: Option<usize> = match top.op {
                Op::Key { fault: BFault::ClearAt(n), .. } => Some(n as usize),
                _ => None,
            };
            if !c19_domain(cfg, pfx, code) {
                continue;
            }
            let bytes = if set == 2 { encode_set2(pfx, code, brk) } else { encode_xt(pfx, code, brk) };
            let (prefix_ok, r_fresh, calls) = decode_fresh(set, &bytes);
            env.cov.api_calls += calls;
            // what the session decoder makes of the same bytes in the stream
            let mut r = Res::Pending;
            let mut sess_prefix_ok = true;
            for (j, b) in bytes.iter().enumerate() {
                let x = Res::of(&session.advance_state(*b));
                env.cov.api_calls += 1;
                if j + 1 < bytes.len() {
                    if x != Res::Pending {
                        sess_prefix_ok = false;
                    }
                } else {
                    r = x;
                }
            }
            // the Keyboard in the same session, with the watchdog's clear()
            let mut rk = Res::Pending;
            let mut kb_prefix_ok = true;
            for (j, b) in bytes.iter().enumerate() {
                if clear_at.map(|n| n.min(bytes.len() - 1)) == Some(j) {
                    if (i + j) % 2 == 1 {
                        // a frame that broke off after a few bits
                        for bit in [false, true, true] {
                            let _ = session_kb.add_bit(bit);
                            env.cov.api_calls += 1;
                        }
                    }
                    session_kb.clear();
                    env.cov.api_calls += 1;
                    env.cov.probe("keyboard_clear_in_the_session");
                }
                let x = Res::of(&session_kb.add_byte(*b));
                env.cov.api_calls += 1;
                // the documented loop: the event goes on to the same object's event stage
                if let Res::Ev(k, st) = x {
                    let _ = session_kb.process_keyevent(pc_keyboard::KeyEvent::new(k, st));
                    env.cov.api_calls += 1;
                }
                if j + 1 < bytes.len() {
                    if x != Res::Pending {
                        kb_prefix_ok = false;
                    }
                } else {
                    rk = x;
                }
            }
            if rk != r_fresh || !kb_prefix_ok {
                violation = Some(Violation {
                    oracle: "sequence-means-the-same-in-a-session".into(),
                    op_index: i,
                    detail: format!(
                        "Set {} sequence {:02X?} decodes as {} on its own but as {} through the session's Keyboard::add_byte (clear() is called by the watchdog now and then){}",
                        set,
                        bytes,
                        r_fresh.show(),
                        rk.show(),
                        if kb_prefix_ok { "" } else { "; a prefix byte already produced a result" }
                    ),
                });
                break 'ops;
            }
            if r != r_fresh || !sess_prefix_ok {
                violation = Some(Violation {
                    oracle: "sequence-means-the-same-in-a-session".into(),
                    op_index: i,
                    detail: format!(
                        "Set {} sequence {:02X?} decodes as {} on its own but as {} in the typing session (after the earlier complete sequences){}",
                        set,
                        bytes,
                        r_fresh.show(),
                        r.show(),
                        if sess_prefix_ok { "" } else { "; a prefix byte already produced a result" }
                    ),
                });
                break 'ops;
            }
            env.cov.evaluations += 1;
            h.mix(((pfx as u64) << 9 | (code as u64) << 1 | brk as u64) ^ (r.hash() << 20));
            env.cov.hit("physical_key_x_direction", c19_cell(set, pfx, code, brk));
            let show_seq = format!("Set {} sequence {:02X?}", set, bytes);
            if !prefix_ok || r == Res::Pending {
                violation = Some(Violation {
                    oracle: "complete-sequence-yields-one-result".into(),
                    op_index: i,
                    detail: format!("{}: a prefix byte produced a result, or the code byte produced none ({})", show_seq, r.show()),
                });
                break 'ops;
            }
            if !brk {
                if typist_held.contains(&(pfx, code)) {
                    env.cov.probe("typematic_repeat");
                } else {
                    typist_held.push((pfx, code));
                }
                if typist_held.len() >= 2 {
                    env.cov.probe("two_keys_held_at_once");
                }
                make_of.insert((pfx, code), r);
                match r {
                    Res::Ev(k, KeyState::Down) => {
                        let ki = kid(k); // identity as the crate numbers it
                        if kidx(k) < NKEYS {
                            env.cov.hit("make_image_set_x_phys_x_key", ((set as usize - 1) * 768 + pfx as usize * 256 + code as usize) * NKEYS + kidx(k));
                        }
                        // two held keys are two keys
                        if let Some(other) = host_held.get(&ki) {
                            if *other != (pfx, code) {
                                violation = Some(Violation {
                                    oracle: "distinct-sequences-distinct-keys".into(),
                                    op_index: i,
                                    detail: format!(
                                        "Set {}: physical keys (prefix class {}, code {:02X}) and (prefix class {}, code {:02X}) both decode as a press of {}",
                                        set,
                                        other.0,
                                        other.1,
                                        pfx,
                                        code,
                                        kname(k)
                                    ),
                                });
                                break 'ops;
                            }
                        }
                        host_held.insert(ki, (pfx, code));
                    }
                    Res::Ev(_, KeyState::SingleShot) => env.cov.probe("obs_status_code_pressed"),
                    Res::Ev(k, KeyState::Up) => {
                        violation = Some(Violation {
                            oracle: "make-break-pairing".into(),
                            op_index: i,
                            detail: format!("{} (a make sequence) decoded as a release of {}", show_seq, kname(k)),
                        });
                        break 'ops;
                    }
                    _ => {}
                }
            } else {
                typist_held.retain(|x| *x != (pfx, code));
                let make = match make_of.get(&(pfx, code)) {
                    Some(m) => *m,
                    None => {
                        // a release without a press in this session (possible after minimisation): decode the make form now
                        let mb = if set == 2 { encode_set2(pfx, code, false) } else { encode_xt(pfx, code, false) };
                        let (_, m, c) = decode_fresh(set, &mb);
                        env.cov.api_calls += c;
                        m
                    }
                };
                let ok = match (make, r) {
                    (Res::Ev(k, KeyState::Down), Res::Ev(k2, KeyState::Up)) => k == k2,
                    (Res::Err(_), Res::Err(_)) => true,
                    (Res::Ev(_, KeyState::SingleShot), _) => true, // the two status codes are exempt
                    _ => false,
                };
                if let (Res::Err(_), Res::Err(_)) = (make, r) {
                    env.cov.probe("obs_unknown_key_pressed_and_released");
                }
                if !ok {
                    violation = Some(Violation {
                        oracle: "make-break-pairing".into(),
                        op_index: i,
                        detail: format!(
                            "Set {} physical key (prefix class {}, code {:02X}): its make sequence decodes as {}, its break sequence {:02X?} as {}",
                            set,
                            pfx,
                            code,
                            make.show(),
                            bytes,
                            r.show()
                        ),
                    });
                    break 'ops;
                }
                if let (Res::Ev(k, KeyState::Down), Res::Ev(_, KeyState::Up)) = (make, r) {
                    host_held.remove(&kid(k));
                    if kidx(k) < NKEYS {
                        env.cov.hit("keys_seen_down_and_up", (set as usize - 1) * NKEYS + kidx(k));
                    }
                }
            }
            // quiescent point: the host's held set is the image of the typist's
            if typist_held.is_empty() {
                env.cov.probe("quiescent_point_checked");
                if !host_held.is_empty() {
                    let (ki, p) = host_held.iter().next().unwrap();
                    violation = Some(Violation {
                        oracle: "no-stuck-key-at-quiescence".into(),
                        op_index: i,
                        detail: format!("typist holds nothing, host still believes key #{} down (from physical key {:?})", ki, p),
                    });
                    break 'ops;
                }
            }
            if env.verbose {
                env.log.push(format!("op {} {} -> {:02X?} -> {}", i, op_show(&top.op), bytes, r.show()));
            }
        }
        env.cov.sim_time_ns += last_t as u128;
        env.cov.fault_free_runs += 1;
        if let Some(v) = &violation {
            h.mix(crate::rng::fnv(v.oracle.as_bytes()));
        }
        Outcome { violation, log_hash: h.0 }
    }
    fn batch_traces(&self, cov: &Cov) -> Vec<Trace> {
        // history check over the whole batch: two different physical keys whose
        // make sequences decode as a press of the same key. The witness is handed
        // back as a concrete two-key session for the ordinary executor.
        let mut out = Vec::new();
        if let Some(img) = cov.reach.get("make_image_set_x_phys_x_key") {
            for set in 0..2usize {
                for k in 0..NKEYS {
                    let mut first: Option<usize> = None;
                    for phys in 0..768usize {
                        if img.get((set * 768 + phys) * NKEYS + k) {
                            if let Some(f) = first {
                                let mut cfg = Cfg::default();
                                cfg.set = set as u8 + 1;
                                cfg.xt = cfg.set == 1;
                                let key = |p: usize, brk: bool| Op::Key { pfx: (p / 256) as u8, code: (p % 256) as u8, brk, fault: BFault::None };
                                let ops = vec![
                                    TOp { t: 0, op: key(f, false) },
                                    TOp { t: 1_000_000, op: key(phys, false) },
                                    TOp { t: 2_000_000, op: key(f, true) },
                                    TOp { t: 3_000_000, op: key(phys, true) },
                                ];
                                out.push(Trace { prop: "C19".into(), cfg, ops, seed: 0, run: u64::MAX, expect: None });
                                break;
                            } else {
                                first = Some(phys);
                            }
                        }
                    }
                }
            }
        }
        out
    }
    fn primary_reach(&self) -> &'static str {
        "physical_key_x_direction"
    }
    fn required(&self, cov: &Cov, _tier: Tier) -> Vec<Shortfall> {
        let mut out = Vec::new();
        require_at_least(cov, "physical_key_x_direction", C19_DOMAIN_SIZE, &mut out);
        require_probes(cov, &mut out);
        out
    }
    fn rule(&self) -> String {
        format!("one evaluation = one complete key sequence of a table-free keyboard decoded by a fresh real decoder and checked against the pairing/injectivity invariants of the session; distinct_nontrivial = distinct (set, prefix class, code, make/break) sequences presented (bitset; the whole domain has {} members); injectivity is additionally checked over the batch-wide image relation", C19_DOMAIN_SIZE)
    }
    fn assumptions(&self) -> Vec<String> {
        vec![
            "no key table is used: the oracle is the relation between what the real decoder answers for make and break forms".into(),
            "each sequence is decoded by a fresh decoder (that later sequences do not depend on earlier ones is C07's check)".into(),
            "Set 1 unprefixed codes 60/61 are outside the domain: their break bytes E0/E1 are the prefix bytes".into(),
            "the relation is finite; the evidence shows the seeded search covered it, exhaustive stays false".into(),
        ]
    }
    fn components_real(&self) -> Vec<&'static str> {
        vec!["ScancodeSet1::advance_state", "ScancodeSet2::advance_state"]
    }
    fn components_model(&self) -> Vec<&'static str> {
        vec!["typist", "table-free keyboard device (every (prefix, code) is a key), Set 2 and native Set 1 encodings", "host held-key bookkeeping"]
    }
}

// ------------------------------------------------------------------ C13

pub struct Dual;

thread_local! {
    /// keys Set 1 can express at all, probed once per worker from the real decoder
    static SET1_EXPRESSIBLE: std::cell::RefCell<Option<Vec<bool>>> = std::cell::RefCell::new(None);
}
fn set1_expressible(k: KeyCode) -> bool {
    SET1_EXPRESSIBLE.with(|c| {
        let mut c = c.borrow_mut();
        if c.is_none() {
            let mut v = vec![false; 256];
            for pfx in 0..3u8 {
                for code in 0..0x80u8 {
                    if pfx == 0 && (code == 0x60 || code == 0x61) {
                        continue;
                    }
                    let (_, r, _) = decode_fresh(1, &encode_xt(pfx, code, false));
                    if let Res::Ev(k, KeyState::Down) = r {
                        v[kid(k)] = true;
                    }
                }
            }
            *c = Some(v);
        }
        c.as_ref().unwrap()[kid(k)]
    })
}

fn xl_codes() -> Vec<u8> {
    (0u16..=0xFF).map(|c| c as u8).filter(|c| translatable(*c)).collect()
}
/// Set 2 codes 47 and 4F translate to 60 and 61, whose break forms E0 / E1 are the
/// Set 1 prefix bytes: no key can live there in both sets, so the shared keyboard
/// does not have them (they would desynchronise host B by construction).
fn c13_domain(code: u8) -> bool {
    translatable(code) && code != 0x47 && code != 0x4F
}

impl Scenario for Dual {
    fn id(&self) -> &'static str {
        "C13"
    }
    fn level(&self) -> &'static str {
        "exploration"
    }
    fn runs(&self, tier: Tier) -> u64 {
        match tier {
            Tier::Quick => 200000,
            Tier::Thorough => 12000000,
        }
    }
    fn declare(&self, cov: &mut Cov) {
        cov.declare("context_x_translatable_code_x_direction", 3 * 129 * 2);
        // of which 2 codes x 3 contexts x 2 directions (47, 4F) are outside the domain
        cov.declare("common_key_x_direction_agreed", NKEYS * 2);
        cov.declare("layout_x_key_end_to_end", NLAYOUT_OBJS * NKEYS);
        cov.fault_declare("prefix_byte_sent_twice");
        cov.fault_declare("stray_prefix_byte");
        cov.fault_declare("command_reply_inside_a_key_sequence");
        cov.probe_declare("clear_called_inside_a_key_sequence");
        cov.probe_declare("obs_both_hosts_decoded_a_key");
        cov.probe_declare("obs_only_set1_knows_the_code");
        cov.probe_declare("obs_neither_host_knows_the_code");
        cov.probe_declare("obs_character_compared_end_to_end");
        cov.probe_declare("obs_chord_with_modifier_held_on_both_hosts");
        cov.probe_declare("obs_pause_sequence_through_both_hosts");
    }
    fn generate(&self, rng: &mut Rng, run: u64, tier: Tier) -> Trace {
        let mut cfg = Cfg::default();
        cfg.set = 1; // host B reads Set 1 behind the i8042; host A reads the same device's Set 2 directly
        cfg.xt = false;
        cfg.layout = (run % NLAYOUT_OBJS as u64) as u8;
        cfg.map = (run / 30) % 2 == 0;
        let codes = xl_codes();
        let f = (run % 774) as usize;
        let (fp, fc, fb) = ((f / 258) as u8, codes[(f / 2) % 129], f % 2 == 1);
        let stratum = (fp, fc / 16);
        let style = STYLES[((run / 7) % STYLES.len() as u64) as usize];
        let p = TypistParams { style, actions: if is_endurance(run) { rng.range(400_000, 450_000) as usize } else { marathon(run, rng.range(6, if tier == Tier::Quick { 60 } else { 150 }) as usize) }, stratum };
        let mut ops = type_session(rng, &cfg, &p);
        ops.retain(|o| matches!(o.op, Op::Key { code, .. } if c13_domain(code)));
        let pos = rng.below(ops.len() as u64 + 1) as usize;
        let t = ops.get(pos).map(|o| o.t).unwrap_or(0);
        if c13_domain(fc) {
            ops.insert(pos, TOp { t, op: Op::Key { pfx: fp, code: fc, brk: fb, fault: BFault::None } });
        }
        // watchdog / application calling clear() at an arbitrary instant (legal at any time on
        // both hosts), and - in three runs out of four - device-side prefix stutter
        let stutter = run % 4 != 0;
        cfg.rate = stutter as u8;
        let limit = ops.len() * 2 / 3;
        for (j, o) in ops.iter_mut().enumerate() {
            if let Op::Key { pfx, code, brk, .. } = o.op {
                if rng.chance(1, 12) {
                    o.op = Op::Key { pfx, code, brk, fault: BFault::ClearAt(rng.range(1, 2) as u8) };
                } else if stutter && j < limit && rng.chance(1, 15) {
                    let f = if pfx != 0 && rng.bool() { BFault::Dup(0) } else { BFault::Ins(0, if rng.bool() { 0xE0 } else { 0xE1 }) };
                    o.op = Op::Key { pfx, code, brk, fault: f };
                } else if stutter && j < limit && rng.chance(1, 15) {
                    // the keyboard's reply to a host command (set LEDs, echo, resend) lands in the
                    // middle of a key sequence: before it or right after its E0/E1 prefix. Replies
                    // pass the controller unchanged and are no key in either set.
                    let reply = *rng.pick(&[0xFAu8, 0xFE, 0xEE, 0xFC, 0xFD]);
                    let at = if pfx != 0 { rng.below(2) as u8 } else { 0 };
                    o.op = Op::Key { pfx, code, brk, fault: BFault::Ins(at, reply) };
                }
            }
        }
        Trace { prop: "C13".into(), cfg, ops, seed: 0, run, expect: None }
    }
    fn execute(&self, trace: &Trace, env: &mut Env) -> Outcome {
        let cfg = &trace.cfg;
        let mut h = LogHash::new();
        let mut violation: Option<Violation> = None;
        let codes = xl_codes();
        let lay = cfg.layout as usize % NLAYOUT_OBJS;
        // the two hosts: full Keyboards, same layout object and mode
        let mut host_a = KbAny::new(2, DynLayout::object(lay), hc(cfg.map));
        let mut host_b = KbAny::new(1, DynLayout::object(lay), hc(cfg.map));
        let mut last_t = 0;
        let mut pause_stage = 0u8;
        let mut any_fault = false;
        // results other than "no event yet", in order
        fn settled(rs: &[Res]) -> Vec<Res> {
            rs.iter().copied().filter(|r| *r != Res::Pending).collect()
        }
        // do two settled result lists agree in the sense of the statement?
        // -> None if they do, Some(index) of the first disagreement otherwise
        fn lists_disagree(a: &[Res], b: &[Res]) -> Option<usize> {
            if a.len() != b.len() {
                return Some(a.len().min(b.len()));
            }
            for (i, (x, y)) in a.iter().zip(b.iter()).enumerate() {
                let bad = match (x, y) {
                    (Res::Ev(k2, s2), Res::Ev(k1, s1)) => k2 != k1 || s2 != s1,
                    (Res::Ev(k2, _), Res::Err(_)) => set1_expressible(*k2),
                    _ => false,
                };
                if bad {
                    return Some(i);
                }
            }
            None
        }
        fn show_list(rs: &[Res]) -> String {
            rs.iter().map(|r| r.show()).collect::<Vec<_>>().join(", ")
        }
        'ops: for (i, top) in trace.ops.iter().enumerate() {
            env.cur_op = i;
            last_t = top.t.max(last_t);
            let (pfx, code, brk, fault) = match top.op {
                Op::Key { pfx, code, brk, fault } if pfx <= 2 && c13_domain(code) => (pfx, code, brk, fault),
                _ => continue,
            };
            // device-side stutter (a prefix byte sent twice, a stray prefix byte) happens before
            // the controller, so both hosts see it; every other byte fault is ignored here
            // because the i8042 itself legitimately reshapes it (e.g. it swallows a doubled F0)
            let base2 = encode_set2(pfx, code, brk);
            let (b2, clear_at): (Vec<u8>, Option<usize>) = match fault {
                BFault::Dup(0) if pfx != 0 => {
                    env.cov.fault("prefix_byte_sent_twice");
                    any_fault = true;
                    (apply_bfault(&base2, fault).0, None)
                }
                BFault::Ins(0, b) if b == 0xE0 || b == 0xE1 => {
                    env.cov.fault("stray_prefix_byte");
                    any_fault = true;
                    (apply_bfault(&base2, fault).0, None)
                }
                BFault::Ins(at, b) if matches!(b, 0xFA | 0xFE | 0xEE | 0xFC | 0xFD) && (at == 0 || (at == 1 && pfx != 0)) => {
                    env.cov.fault("command_reply_inside_a_key_sequence");
                    any_fault = true;
                    (apply_bfault(&base2, fault).0, None)
                }
                BFault::ClearAt(n) => {
                    env.cov.probe("clear_called_inside_a_key_sequence");
                    (base2.clone(), Some(n as usize))
                }
                _ => (base2.clone(), None),
            };
            let b1 = I8042::translate(&b2);
            let plain = b2 == base2 && clear_at.is_none();
            // per-sequence verdicts from fresh decoders
            let mut f2 = DynSet::new(2);
            let mut f1 = DynSet::new(1);
            let iso2: Vec<Res> = b2.iter().map(|b| Res::of(&f2.advance_state(*b))).collect();
            let iso1: Vec<Res> = b1.iter().map(|b| Res::of(&f1.advance_state(*b))).collect();
            env.cov.api_calls += (b1.len() + b2.len()) as u64;
            env.cov.evaluations += 1;
            let (s2, s1) = (settled(&iso2), settled(&iso1));
            h.mix(((pfx as u64) << 9 | (code as u64) << 1 | brk as u64) ^ (s2.iter().fold(0u64, |a, r| a.wrapping_mul(31) ^ r.hash()) << 20));
            let ci = codes.iter().position(|c| *c == code).unwrap_or(0);
            if plain {
                env.cov.hit("context_x_translatable_code_x_direction", ((pfx as usize) * 129 + ci) * 2 + brk as usize);
            }
            // the context in which the code byte is actually decoded: after a doubled/stray
            // prefix in front of a prefixed key the code byte ends up unprefixed
            let eff_pfx = match fault {
                BFault::Dup(0) if pfx != 0 => 0,
                BFault::Ins(0, b) if b == 0xE0 || b == 0xE1 => {
                    if pfx != 0 {
                        0
                    } else if b == 0xE0 {
                        1
                    } else {
                        2
                    }
                }
                // a reply right after the prefix uses the prefix up: the code byte is decoded unprefixed
                BFault::Ins(1, b) if matches!(b, 0xFA | 0xFE | 0xEE | 0xFC | 0xFD) && pfx != 0 => 0,
                _ => pfx as usize,
            };
            let ctxname = CTX1_NAMES[eff_pfx];
            let dir = if brk { "break" } else { "make" };
            let tag = "";
            // a release Set 2 rejects although it decodes the same physical key's press: Set 2 can
            // express this key, so "only Set 1 knows the code" does not excuse it
            let mut iso_dis = lists_disagree(&s2, &s1);
            // the conversion table the statement cites says this Set 2 sequence is key K, Set 1
            // decodes its translation as K, and Set 2 rejects it: K is a key both sets are meant to
            // express, so "only Set 1 knows the code" does not excuse Set 2's error
            if iso_dis.is_none() && plain {
                if let (Some(Res::Err(_)), Some(Res::Ev(k1, _))) = (s2.last(), s1.last()) {
                    if env.tables.set2[pfx as usize % 3][code as usize] == Some(*k1) {
                        iso_dis = Some(s2.len() - 1);
                    }
                }
            }
            if iso_dis.is_none() && brk && plain {
                if let (Some(Res::Err(_)), Some(Res::Ev(k1, KeyState::Up))) = (s2.last(), s1.last()) {
                    let mut fm = DynSet::new(2);
                    let mk: Vec<Res> = encode_set2(pfx, code, false).iter().map(|b| Res::of(&fm.advance_state(*b))).collect();
                    env.cov.api_calls += mk.len() as u64;
                    if mk.last() == Some(&Res::Ev(*k1, KeyState::Down)) {
                        iso_dis = Some(s2.len() - 1);
                    }
                }
            }
            if let Some(j) = iso_dis {
                let sig = format!(
                    "c13/{}/{:02X}/{}{}/set2={}/set1={}",
                    ctxname,
                    code,
                    dir,
                    tag,
                    s2.get(j).map(|r| r.show()).unwrap_or_else(|| "nothing".into()),
                    s1.get(j).map(|r| r.show()).unwrap_or_else(|| "nothing".into())
                );
                let detail = format!(
                    "Set 2 bytes {:02X?} decode as [{}]; the i8042 translates them to {:02X?}, which Set 1 decodes as [{}] (keys that only one set can express are not compared)",
                    b2,
                    show_list(&s2),
                    b1,
                    show_list(&s1)
                );
                if let Some(v) = env.disagree("C13", "translated-sequence-same-event", &sig, i, detail) {
                    violation = Some(v);
                    break 'ops;
                }
            } else {
                for (x, y) in s2.iter().zip(s1.iter()) {
                    match (x, y) {
                        (Res::Ev(k, s), Res::Ev(..)) => {
                            env.cov.probe("obs_both_hosts_decoded_a_key");
                            if kidx(*k) < NKEYS && *s != KeyState::SingleShot {
                                env.cov.hit("common_key_x_direction_agreed", kidx(*k) * 2 + (*s == KeyState::Down) as usize);
                            }
                        }
                        (Res::Ev(..), Res::Err(_)) => env.cov.count("set2_key_not_expressible_in_set1", 1),
                        (Res::Err(_), Res::Ev(..)) => env.cov.probe("obs_only_set1_knows_the_code"),
                        _ => env.cov.probe("obs_neither_host_knows_the_code"),
                    }
                }
            }
            // end to end: the two hosts' long-lived Keyboards read the same key from the stream
            // (with clear() called on both at the same point, if the op says so). They must agree
            // with each other exactly as the per-sequence verdicts must.
            let mut la: Vec<Res> = Vec::new();
            let mut lb: Vec<Res> = Vec::new();
            for (j, b) in b2.iter().enumerate() {
                if clear_at.map(|n| n.min(b2.len() - 1)) == Some(j) {
                    host_a.clear();
                }
                la.push(Res::of(&host_a.add_byte(*b)));
            }
            for (j, b) in b1.iter().enumerate() {
                if clear_at.map(|n| n.min(b1.len() - 1)) == Some(j) {
                    host_b.clear();
                }
                lb.push(Res::of(&host_b.add_byte(*b)));
            }
            env.cov.api_calls += (b1.len() + b2.len()) as u64;
            env.cov.evaluations += 1;
            let (sa, sb) = (settled(&la), settled(&lb));
            // "Set 2 does not know this code" excuses a Set 2 error only if Set 2 really does not
            // know it: if the same bytes on their own decode to the very event host B reports,
            // host A's error in the stream is a disagreement about a key both sets can express
            let mut stream_dis = lists_disagree(&sa, &sb);
            if stream_dis.is_none() {
                for (j, (x, y)) in sa.iter().zip(sb.iter()).enumerate() {
                    if let (Res::Err(_), Res::Ev(..)) = (x, y) {
                        if s2.get(j) == Some(y) {
                            stream_dis = Some(j);
                            break;
                        }
                    }
                }
            }
            if let Some(j) = stream_dis {
                let sig = format!(
                    "c13/{}/{:02X}/{}{}/set2={}/set1={}",
                    ctxname,
                    code,
                    dir,
                    tag,
                    sa.get(j).map(|r| r.show()).unwrap_or_else(|| "nothing".into()),
                    sb.get(j).map(|r| r.show()).unwrap_or_else(|| "nothing".into())
                );
                let detail = format!(
                    "in the stream{}, host A (Set 2) read {:02X?} as [{}] while host B (Set 1 behind the i8042) read {:02X?} as [{}]",
                    if clear_at.is_some() { " (clear() called on both hosts inside the sequence)" } else { "" },
                    b2,
                    show_list(&sa),
                    b1,
                    show_list(&sb)
                );
                if let Some(v) = env.disagree("C13", "hosts-agree-on-the-stream", &sig, i, detail) {
                    violation = Some(v);
                    break 'ops;
                }
            }
            if sa != s2 || sb != s1 {
                env.cov.count("stream_result_differs_from_isolated_sequence", 1);
            }
            // events both hosts agree on go through both event decoders
            for (x, y) in sa.iter().zip(sb.iter()) {
                let (k, s) = match (x, y) {
                    (Res::Ev(k2, s2), Res::Ev(k1, s1)) if k2 == k1 && s2 == s1 => (*k2, *s2),
                    _ => continue,
                };
                let da = host_a.process_keyevent(pc_keyboard::KeyEvent::new(k, s));
                let db = host_b.process_keyevent(pc_keyboard::KeyEvent::new(k, s));
                env.cov.api_calls += 2;
                env.cov.evaluations += 1;
                if kidx(k) < NKEYS {
                    env.cov.hit("layout_x_key_end_to_end", lay * NKEYS + kidx(k));
                }
                if da.is_some() {
                    env.cov.probe("obs_character_compared_end_to_end");
                }
                let ma = host_a.get_modifiers().clone();
                if s == KeyState::Down && !is_mod_key(k) && (ma.lshift || ma.rshift || ma.lctrl || ma.rctrl || ma.ralt) {
                    env.cov.probe("obs_chord_with_modifier_held_on_both_hosts");
                }
                // Pause = E1 14 77: RControl2 down then NumLock down decodes as PauseBreak on both
                if k == KeyCode::RControl2 && s == KeyState::Down {
                    pause_stage = 1;
                } else if pause_stage == 1 && k == KeyCode::NumpadLock && s == KeyState::Down {
                    env.cov.probe("obs_pause_sequence_through_both_hosts");
                    pause_stage = 0;
                } else {
                    pause_stage = 0;
                }
                if da != db || ma != *host_b.get_modifiers() {
                    violation = Some(Violation {
                        oracle: "hosts-agree-end-to-end".into(),
                        op_index: i,
                        detail: format!(
                            "layout {} both hosts saw {}({}) but host A (Set 2) produced {:?} with modifiers [{}], host B (Set 1) produced {:?} with [{}]",
                            layout_obj_name(lay),
                            sname(s),
                            kname(k),
                            da,
                            mods_show(&ma),
                            db,
                            mods_show(host_b.get_modifiers())
                        ),
                    });
                    break 'ops;
                }
            }
            if env.verbose {
                env.log.push(format!("op {} {} -> set2 {:02X?} = [{}] | set1 {:02X?} = [{}]", i, op_show(&top.op), b2, show_list(&sa), b1, show_list(&sb)));
            }
        }
        env.cov.sim_time_ns += last_t as u128;
        if any_fault {
            env.cov.faulty_runs += 1;
        } else {
            env.cov.fault_free_runs += 1;
        }
        if let Some(v) = &violation {
            h.mix(crate::rng::fnv(v.oracle.as_bytes()));
        }
        Outcome { violation, log_hash: h.0 }
    }
    fn primary_reach(&self) -> &'static str {
        "context_x_translatable_code_x_direction"
    }
    fn required(&self, cov: &Cov, _tier: Tier) -> Vec<Shortfall> {
        let mut out = Vec::new();
        require_at_least(cov, "context_x_translatable_code_x_direction", 3 * 127 * 2, &mut out);
        require_probes(cov, &mut out);
        out
    }
    fn rule(&self) -> String {
        "one evaluation = one key sequence of the shared keyboard decoded by both hosts (Set 2 directly, Set 1 through the simulated i8042) and compared, or one key event taken through both hosts' event decoders and compared; distinct_nontrivial = distinct (prefix context, translatable Set 2 code, make/break) sequences compared (bitset of 774)".into()
    }
    fn assumptions(&self) -> Vec<String> {
        vec![
            "trusted base: the 8042 translation table (spec.rs) and the i8042 model (world.rs)".into(),
            "Set 2 codes 47/4F are not keys of the shared keyboard (their translated break bytes are the Set 1 prefix bytes); only keys both sets can express are constrained: Set 2 unknown / Set 1 known is not flagged; 'Set 1 can express K' is probed from the real Set 1 decoder over all 3 x 128 make sequences".into(),
            "the only faults are device-side prefix stutter (a prefix byte sent twice, a stray prefix byte), which reaches both hosts through the controller unchanged; other corruptions are not injected because the i8042 legitimately reshapes them (it swallows a doubled F0), C07 covers them per set; clear() is called on both hosts at arbitrary instants, also inside a key sequence".into(),
        ]
    }
    fn components_real(&self) -> Vec<&'static str> {
        vec!["ScancodeSet2::advance_state", "ScancodeSet1::advance_state", "Keyboard::{add_byte,process_keyevent,get_modifiers} x2", "all 30 layout objects"]
    }
    fn components_model(&self) -> Vec<&'static str> {
        vec!["typist", "Set 2 keyboard device (known and unknown physical keys)", "i8042 translation", "two hosts"]
    }
}
