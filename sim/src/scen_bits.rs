//! BITS scenarios: keyboard device -> PS/2 wire (clock edges at simulated
//! times, bit faults, lost/extra edges, cable pulls, line noise) -> host ISR
//! (add_bit / add_word) + watchdog (clear() after an idle timeout) on the real
//! `Ps2Decoder`. Serves C05 (frame validity) and C06 (bit-serial == whole-word,
//! frames independent, bounded recovery).
use crate::cover::Cov;
use crate::dynobj::*;
use crate::model::*;
use crate::op::*;
use crate::rng::{LogHash, Rng};
use crate::scen::*;
use crate::typist::*;
use crate::world::*;
use pc_keyboard::{Keyboard, Ps2Decoder, ScancodeSet, ScancodeSet2};

#[derive(Clone, Copy, PartialEq, Eq)]
pub enum WProp {
    C05,
    C06,
}
pub struct Bits {
    pub prop: WProp,
}

const US: u64 = 1_000;

/// index of the unordered pair i<j among the 55 pairs of 11 positions
fn pair_index(i: usize, j: usize) -> usize {
    let (i, j) = if i < j { (i, j) } else { (j, i) };
    // pairs (0,1),(0,2)...(0,10),(1,2)...
    i * 11 - i * (i + 1) / 2 + (j - i - 1)
}
fn pair_from_index(mut k: usize) -> (usize, usize) {
    for i in 0..11 {
        let n = 10 - i;
        if k < n {
            return (i, i + 1 + k);
        }
        k -= n;
    }
    (0, 1)
}

/// an 11-bit word whose verdict class is c (0 ok, 1 bad start, 2 bad stop, 3 parity)
fn word_of_class(rng: &mut Rng, c: usize) -> u16 {
    let byte = rng.byte();
    let mut w = bits_word(&encode_frame(byte));
    match c {
        0 => {}
        1 => w |= 1,
        2 => w &= !(1 << 10),
        _ => w ^= 1 << 9,
    }
    w
}

impl Bits {
    fn pid(&self) -> &'static str {
        match self.prop {
            WProp::C05 => "C05",
            WProp::C06 => "C06",
        }
    }
}

impl Bits {
    /// C05 - the per-frame predicate. Every 11 bits the wire delivers are judged
    /// on their own: by a fresh decoder fed bit by bit, by add_word on a fresh
    /// decoder, by add_word on a long-lived decoder that holds whatever partial
    /// frame the faults left behind, and through Keyboard::add_word. (That frames
    /// do not influence each other and that clear() works is C06, not C05.)
    fn execute_c05(&self, trace: &Trace, env: &mut Env) -> Outcome {
        let mut h = LogHash::new();
        let mut busy = Ps2Decoder::new(); // only ever holds junk; add_word must not care
        let mut busy_bits = 0usize;
        // a long-lived receiver on the same wire (the statement's "consequently" clause is
        // about frames in a stream): ground truth applies whenever, by construction of the
        // trace, it sits at a frame boundary (start of run, or clear() since the last
        // length-changing fault)
        let mut stream = if trace.cfg.obj == 1 { Ps2Decoder::default() } else { Ps2Decoder::new() };
        let mut aligned = true;
        let mut kb = KbAny::new(2, DynLayout::Direct(2), hc(true));
        // and a long-lived Keyboard on the same wire, bit by bit (the route an interrupt handler uses)
        let mut kb_stream = KbAny::new(if trace.cfg.seed2 & 1 == 0 { 2 } else { 1 }, DynLayout::Direct(2), hc(true));
        let mut queued_ev5: Option<(pc_keyboard::KeyEvent, usize)> = None;
        let mut violation: Option<Violation> = None;
        let mut any_fault = false;
        let mut last_t = 0u64;
        let mut prev_rejected = false;
        macro_rules! fail {
            ($l:lifetime, $i:expr, $oracle:expr, $($arg:tt)*) => {{
                violation = Some(Violation { oracle: $oracle.to_string(), op_index: $i, detail: format!($($arg)*) });
                break $l;
            }};
        }
        'ops: for (i, top) in trace.ops.iter().enumerate() {
            env.cur_op = i;
            last_t = last_t.max(top.t);
            h.mix(top.op.kind() as u64);
            let (bits, via, sent, fault): (Vec<bool>, Via, Option<u8>, WFault) = match top.op {
                Op::Frame { sent, fault, via } => (apply_wfault(sent, fault), via, Some(sent), fault),
                Op::Noise { word, via } => (word_bits(word & 0x7FF).to_vec(), via, None, WFault::None),
                Op::Edge { bit } => (vec![bit], Via::Bit, None, WFault::None),
                Op::Clear => {
                    let _ = busy.clear();
                    busy_bits = 0;
                    kb.clear();
                    kb_stream.clear();
                    let _ = stream.clear();
                    aligned = true;
                    env.cov.api_calls += 4;
                    if i > 0 {
                        env.cov.fault("clear_with_nothing_pending");
                        env.cov.probe("watchdog_clear_after_fault");
                    }
                    continue;
                }
                _ => continue,
            };
            match top.op {
                Op::Frame { fault, .. } => {
                    let fired = match fault {
                        WFault::None => false,
                        WFault::Flip(m) => m & 0x7FF != 0,
                        _ => true,
                    };
                    if fired {
                        env.cov.fault(wfault_name(&fault));
                        any_fault = true;
                        if let (WFault::Trunc(_), Some(TOp { op: Op::Clear, .. })) = (fault, trace.ops.get(i + 1)) {
                            if matches!(trace.ops.get(i + 2), Some(TOp { op: Op::Edge { .. }, .. })) {
                                env.cov.fault("early_timeout");
                            }
                        }
                    }
                }
                Op::Noise { .. } => {
                    env.cov.fault("noise_frame");
                    any_fault = true;
                }
                Op::Edge { .. } => {
                    env.cov.fault("stray_edge");
                    any_fault = true;
                }
                _ => {}
            }
            // the long-lived receiver sees every bit the wire delivers
            let was_aligned = aligned;
            let mut r_stream: Option<FRes> = None;
            let mut stream_early = false;
            let mut rk_stream: Option<Res> = None;
            let mut kb_early: Option<(usize, Res)> = None;
            for (j, b) in bits.iter().enumerate() {
                let x = FRes::of_bit(&stream.add_bit(*b));
                // the main loop gets round to a queued event some bits into a later frame
                if let Some((ev, lag)) = queued_ev5.take() {
                    if lag == 0 {
                        let _ = kb_stream.process_keyevent(ev);
                        env.cov.api_calls += 1;
                        env.cov.probe("queued_event_processed_between_two_bits");
                    } else {
                        queued_ev5 = Some((ev, lag - 1));
                    }
                }
                let y = Res::of(&kb_stream.add_bit(*b));
                if let Res::Ev(k, st) = y {
                    if let Some((old, _)) = queued_ev5.take() {
                        let _ = kb_stream.process_keyevent(old);
                    }
                    queued_ev5 = Some((pc_keyboard::KeyEvent::new(k, st), (i + j) % 10));
                }
                env.cov.api_calls += 2;
                if was_aligned && bits.len() == 11 {
                    if j < 10 {
                        if x != FRes::Pending {
                            stream_early = true;
                        }
                        if y != Res::Pending && kb_early.is_none() {
                            kb_early = Some((j, y));
                        }
                    } else {
                        r_stream = Some(x);
                        rk_stream = Some(y);
                    }
                }
            }
            if let Some(y) = rk_stream {
                // the frame rule through Keyboard::add_bit, receiver at a frame boundary: a rejected
                // frame is reported with exactly its framing error on the 11th bit, an accepted one
                // never with a framing error, and nothing is reported before the 11th bit
                let want = frame_verdict(&bits);
                let framing_err = |r: &Res| matches!(r, Res::Err(e) if *e != pc_keyboard::Error::UnknownKeyCode);
                env.cov.evaluations += 1;
                env.cov.probe("frame_checked_via_keyboard_add_bit");
                if let Some((j, e)) = kb_early {
                    fail!('ops, i, "keyboard-add_bit-verdict", "Keyboard::add_bit, receiver at a frame boundary: bit {} of the frame {:03X} already returned {}", j, bits_word(&bits), e.show());
                }
                let ok = match want {
                    FRes::Err(e) => y == Res::Err(e),
                    _ => !framing_err(&y),
                };
                if !ok {
                    fail!('ops, i, "keyboard-add_bit-verdict", "Keyboard::add_bit, receiver at a frame boundary (start of run or clear()): the frame {:03X} returned {} on its 11th bit, the PS/2 frame rule says {}", bits_word(&bits), y.show(), want.show());
                }
            }
            if bits.len() != 11 {
                aligned = false;
            }
            if bits.len() == 11 && was_aligned {
                // a host that mixes the entry points: add_word on the receiver that has just
                // shifted this frame in, with the same payload and damaged framing bits
                let w0 = bits_word(&bits);
                for v in [w0, w0 ^ 0x001, w0 ^ 0x400, w0 ^ 0x401, w0 ^ 0x200] {
                    let a = FRes::of_word(&stream.add_word(v));
                    let wantv = frame_verdict(&word_bits(v));
                    env.cov.api_calls += 1;
                    env.cov.evaluations += 1;
                    if a != wantv {
                        fail!('ops, i, "frame-verdict-independent-of-decoder-state", "add_word({:03X}) on a receiver that has just shifted in the frame {:03X} returned {}, the PS/2 frame rule says {}", v, w0, a.show(), wantv.show());
                    }
                }
            }
            if bits.len() != 11 {
                // not a frame: the bits end up as junk in the long-lived decoder
                for b in &bits {
                    if busy_bits % 11 == 10 {
                        let _ = busy.clear(); // keep it strictly partial
                        busy_bits = 0;
                    }
                    let _ = busy.add_bit(*b);
                    busy_bits += 1;
                    env.cov.api_calls += 1;
                }
                if busy_bits % 11 != 0 {
                    env.cov.fault("missed_or_late_timeout");
                }
                continue;
            }
            let w = bits_word(&bits);
            let want = frame_verdict(&bits);
            env.cov.hit("words_presented", w as usize);
            // bit-serial on a fresh decoder, or whole-word on a fresh and on the busy decoder
            let r = if via == Via::Bit {
                let mut f = Ps2Decoder::new();
                let mut last = FRes::Pending;
                for (j, b) in bits.iter().enumerate() {
                    let x = FRes::of_bit(&f.add_bit(*b));
                    env.cov.api_calls += 1;
                    if j < 10 {
                        if x != FRes::Pending {
                            fail!('ops, i, "frame-verdict-model", "fresh decoder: bit {} of the frame {:03X} already returned {}", j, w, x.show());
                        }
                    } else {
                        last = x;
                    }
                }
                last
            } else {
                let a = FRes::of_word(&Ps2Decoder::new().add_word(w));
                let b = FRes::of_word(&busy.add_word(w));
                env.cov.api_calls += 2;
                env.cov.evaluations += 1;
                if a != b {
                    fail!(
                        'ops,
                        i,
                        "frame-verdict-independent-of-decoder-state",
                        "add_word({:03X}) returned {} on a fresh decoder and {} on a decoder holding {} bits of a partial frame",
                        w,
                        a.show(),
                        b.show(),
                        busy_bits % 11
                    );
                }
                a
            };
            h.mix(w as u64 ^ (r.hash() << 16));
            env.cov.evaluations += 1;
            if r != want {
                fail!('ops, i, "frame-verdict-model", "frame {:03X} ({}) returned {}, the PS/2 frame rule says {}", w, if via == Via::Bit { "bit by bit" } else { "add_word" }, r.show(), want.show());
            }
            if prev_rejected {
                env.cov.probe("frame_right_after_rejected_frame");
            }
            prev_rejected = matches!(want, FRes::Err(_));
            // the same word through Keyboard::add_word: the framing verdict must be the same -
            // a rejected frame is reported with its framing error and nothing else, an accepted
            // frame never with a framing error (what the scancode stage then makes of the byte
            // is C01/C18's business, not C05's)
            let rk = Res::of(&kb.add_word(w));
            env.cov.api_calls += 1;
            env.cov.hit("words_via_keyboard_add_word", w as usize);
            env.cov.evaluations += 1;
            let framing_err = |r: &Res| matches!(r, Res::Err(e) if *e != pc_keyboard::Error::UnknownKeyCode);
            let ok = match r {
                FRes::Err(e) => rk == Res::Err(e),
                _ => !framing_err(&rk),
            };
            if !ok {
                fail!('ops, i, "keyboard-add_word-verdict", "Keyboard::add_word({:03X}) returned {}, the frame decoder's verdict on the same word is {}", w, rk.show(), r.show());
            }
            // ground truth from the fault annotation, not from the model: for the frame judged
            // on its own, and for the same frame as the long-lived receiver saw it in the stream
            if let Some(sent) = sent {
                let flips = match fault {
                    WFault::None => Some(0u16),
                    WFault::Flip(m) => Some(m & 0x7FF),
                    _ => None,
                };
                if let Some(m) = flips {
                    let mut views: Vec<(&str, FRes)> = vec![("on its own", r)];
                    if let Some(rs) = r_stream {
                        env.cov.probe("frame_checked_in_stream");
                        if stream_early {
                            fail!('ops, i, "valid-frame-round-trip", "long-lived receiver at a frame boundary: a bit before the 11th of frame {:03X} already produced a result", w);
                        }
                        views.push(("in the stream, receiver at a frame boundary", rs));
                    }
                    for (how, got) in views {
                        env.cov.evaluations += 1;
                        match m.count_ones() {
                            0 => {
                                env.cov.probe("aligned_clean_frame_checked");
                                env.cov.hit("bytes_round_tripped", sent as usize);
                                if got != FRes::Byte(sent) {
                                    fail!('ops, i, "valid-frame-round-trip", "device sent {:02X} undamaged (frame {:03X}); result {} ({})", sent, w, got.show(), how);
                                }
                            }
                            1 => {
                                let pos = m.trailing_zeros() as usize;
                                env.cov.hit("byte_x_single_flip", sent as usize * 11 + pos);
                                env.cov.probe("single_flip_rejected");
                                if !matches!(got, FRes::Err(_)) {
                                    fail!('ops, i, "single-bit-corruption-rejected", "frame for {:02X} with bit {} flipped was not rejected: {} ({})", sent, pos, got.show(), how);
                                }
                            }
                            2 => {
                                let i0 = m.trailing_zeros() as usize;
                                let i1 = 15 - m.leading_zeros() as usize;
                                env.cov.hit("byte_x_double_flip", sent as usize * 55 + pair_index(i0, i1));
                                let both_inside = (1..=9).contains(&i0) && (1..=9).contains(&i1);
                                if both_inside {
                                    env.cov.probe("double_flip_accepted_with_changed_byte");
                                    let wantb = sent ^ (((m >> 1) & 0xFF) as u8);
                                    if got != FRes::Byte(wantb) {
                                        fail!('ops, i, "double-bit-corruption", "frame for {:02X} with bits {} and {} flipped: got {}, expected Ok({:02X}) ({})", sent, i0, i1, got.show(), wantb, how);
                                    }
                                } else {
                                    env.cov.probe("double_flip_rejected");
                                    if !matches!(got, FRes::Err(_)) {
                                        fail!('ops, i, "double-bit-corruption", "frame for {:02X} with bits {} and {} flipped (one outside data/parity) was accepted: {} ({})", sent, i0, i1, got.show(), how);
                                    }
                                }
                            }
                            _ => {}
                        }
                    }
                }
            } else if let Some(rs) = r_stream {
                // a noise word in the stream: the long-lived receiver must judge it like a fresh one
                env.cov.evaluations += 1;
                if rs != want || stream_early {
                    fail!('ops, i, "frame-verdict-model", "long-lived receiver at a frame boundary judged the 11 bits {:03X} as {}, the PS/2 frame rule says {}", w, rs.show(), want.show());
                }
            }
            if env.verbose {
                env.log.push(format!("op {} {} -> word {:03X} via {:?} -> {}", i, op_show(&top.op), w, via, r.show()));
            }
        }
        env.cov.sim_time_ns += last_t as u128;
        if any_fault {
            env.cov.faulty_runs += 1;
        } else {
            env.cov.fault_free_runs += 1;
        }
        if let Some(v) = &violation {
            h.mix(crate::rng::fnv(v.oracle.as_bytes()));
        }
        Outcome { violation, log_hash: h.0 }
    }

    /// C06 - the stateful bit path, judged purely relative to whole-word decoding:
    /// ten 'incomplete' answers then exactly what add_word says for those 11 bits,
    /// whatever came before and after clear() from any partial state. The frame
    /// rule itself (C05) is deliberately not consulted.
    fn execute_c06(&self, trace: &Trace, env: &mut Env) -> Outcome {
        let mut h = LogHash::new();
        let mut real = if trace.cfg.obj == 1 { Ps2Decoder::default() } else { Ps2Decoder::new() };
        let mut model = RefFramer::new(); // used as a bit collector / counter only
        // the same statement one level up: a Keyboard fed bit by bit against a Keyboard handed the
        // same 11 bits as whole words (both routes end in the same scancode decoder type)
        let kset = if trace.cfg.seed2 & 1 == 0 { 2 } else { 1 };
        let mut kb_bits = KbAny::new(kset, DynLayout::object(0), pc_keyboard::HandleControl::Ignore);
        let mut kb_words = KbAny::new(kset, DynLayout::object(0), pc_keyboard::HandleControl::Ignore);
        let mut queued_ev: Option<(pc_keyboard::KeyEvent, usize)> = None;
        let mut aligned = true;
        let mut any_fault = false;
        let mut faults_seen = false;
        let mut cleared_since_fault = true;
        let mut prev_class: Option<usize> = None;
        let mut prev_word: Option<u16> = None;
        let mut after_clear_from: Option<usize> = None;
        let mut violation: Option<Violation> = None;
        let mut last_t = 0u64;
        // deterministic side-probe words (no PRNG in the executor: a function of the trace)
        let mut probe_word: u16 = (trace.cfg.seed2 as u16 ^ 0x2A5) & 0x7FF;
        macro_rules! fail {
            ($l:lifetime, $i:expr, $oracle:expr, $($arg:tt)*) => {{
                violation = Some(Violation { oracle: $oracle.to_string(), op_index: $i, detail: format!($($arg)*) });
                break $l;
            }};
        }
        'ops: for (i, top) in trace.ops.iter().enumerate() {
            env.cur_op = i;
            last_t = last_t.max(top.t);
            h.mix(top.op.kind() as u64);
            let (bits, sent, fault): (Vec<bool>, Option<u8>, WFault) = match top.op {
                Op::Frame { sent, fault, .. } => (apply_wfault(sent, fault), Some(sent), fault),
                Op::Noise { word, .. } => (word_bits(word & 0x7FF).to_vec(), None, WFault::None),
                Op::Edge { bit } => (vec![bit], None, WFault::None),
                Op::Clear => {
                    let n = model.pending();
                    env.cov.hit("clear_at_pending_count", n);
                    if n == 10 {
                        env.cov.probe("clear_with_10_bits_pending");
                    }
                    if n == 0 && cleared_since_fault && i > 0 {
                        env.cov.fault("clear_with_nothing_pending");
                    } else if !cleared_since_fault {
                        env.cov.probe("watchdog_clear_after_fault");
                    }
                    let _ = real.clear();
                    kb_bits.clear();
                    kb_words.clear();
                    model.clear();
                    env.cov.api_calls += 3;
                    aligned = true;
                    cleared_since_fault = true;
                    prev_class = None;
                    prev_word = None;
                    after_clear_from = Some(n);
                    if env.verbose {
                        env.log.push(format!("op {} clear ({} bits were pending)", i, n));
                    }
                    continue;
                }
                _ => continue,
            };
            let is_fault_op = match top.op {
                Op::Frame { fault, .. } => {
                    let fired = match fault {
                        WFault::None => false,
                        WFault::Flip(m) => m & 0x7FF != 0,
                        _ => true,
                    };
                    if fired {
                        env.cov.fault(wfault_name(&fault));
                        if let (WFault::Trunc(_), Some(TOp { op: Op::Clear, .. })) = (fault, trace.ops.get(i + 1)) {
                            if matches!(trace.ops.get(i + 2), Some(TOp { op: Op::Edge { .. }, .. })) {
                                env.cov.fault("early_timeout");
                            }
                        }
                    }
                    fired
                }
                Op::Noise { .. } => {
                    env.cov.fault("noise_frame");
                    true
                }
                Op::Edge { .. } => {
                    env.cov.fault("stray_edge");
                    true
                }
                _ => false,
            };
            if is_fault_op {
                any_fault = true;
                faults_seen = true;
                cleared_since_fault = false;
            }
            if !aligned && matches!(top.op, Op::Frame { .. }) {
                env.cov.fault("missed_or_late_timeout");
            }
            let mut final_res: Option<FRes> = None;
            for (j, bit) in bits.iter().copied().enumerate() {
                let st = model.state_index();
                let pending_before = model.pending();
                // whole-word decoding must not depend on (nor disturb) a partial frame being held
                if pending_before > 0 && j == 0 {
                    probe_word = probe_word.wrapping_mul(5).wrapping_add(0x3D) & 0x7FF;
                    let a = FRes::of_word(&real.add_word(probe_word));
                    let b = FRes::of_word(&Ps2Decoder::new().add_word(probe_word));
                    env.cov.api_calls += 2;
                    env.cov.evaluations += 1;
                    env.cov.probe("add_word_on_busy_decoder");
                    if a != b {
                        fail!(
                            'ops,
                            i,
                            "wholeword-independent-of-partial-frame",
                            "add_word({:03X}) returned {} on the decoder holding {} bits of a partial frame, {} on a fresh decoder",
                            probe_word,
                            a.show(),
                            pending_before,
                            b.show()
                        );
                    }
                }
                let snapshot: Vec<bool> = if pending_before == 10 { model.bits.clone() } else { Vec::new() };
                let model_bits_before: Vec<bool> = snapshot.clone();
                let r = FRes::of_bit(&real.add_bit(bit));
                // the main loop gets round to a queued event some bits into the next frame
                if let Some((ev, lag)) = queued_ev.take() {
                    if lag == 0 {
                        let _ = kb_bits.process_keyevent(ev);
                        env.cov.api_calls += 1;
                        env.cov.probe("queued_event_processed_between_two_bits");
                    } else {
                        queued_ev = Some((ev, lag - 1));
                    }
                }
                let rk = Res::of(&kb_bits.add_bit(bit));
                let _ = model.add_bit(bit);
                env.cov.api_calls += 2;
                env.cov.evaluations += 2;
                if pending_before < 10 {
                    if rk != Res::Pending {
                        fail!(
                            'ops,
                            i,
                            "keyboard-bit-route-equals-word-route",
                            "Keyboard::add_bit({}) with {} bits pending since the last frame boundary or clear() returned {} instead of Ok(None)",
                            bit as u8,
                            pending_before,
                            rk.show()
                        );
                    }
                } else {
                    let mut eleven = model_bits_before.clone();
                    eleven.push(bit);
                    let w = bits_word(&eleven);
                    let rw = Res::of(&kb_words.add_word(w));
                    env.cov.api_calls += 1;
                    env.cov.probe("keyboard_bit_route_vs_word_route");
                    if let Res::Ev(k, st) = rw {
                        // word route: the event is processed at once; bit route: a few bits later
                        let _ = kb_words.process_keyevent(pc_keyboard::KeyEvent::new(k, st));
                        env.cov.api_calls += 1;
                    }
                    if let Res::Ev(k, st) = rk {
                        if let Some((old, _)) = queued_ev.take() {
                            let _ = kb_bits.process_keyevent(old);
                        }
                        queued_ev = Some((pc_keyboard::KeyEvent::new(k, st), (w as usize + i) % 10));
                    }
                    if rk != rw {
                        fail!(
                            'ops,
                            i,
                            "keyboard-bit-route-equals-word-route",
                            "Keyboard (Set {}): the 11th add_bit of frame {:03X} returned {}, Keyboard::add_word of the same 11 bits (same frames so far, as words) returns {}",
                            kset,
                            w,
                            rk.show(),
                            rw.show()
                        );
                    }
                }
                h.mix(((st as u64) << 1 | bit as u64) ^ (r.hash() << 16));
                env.cov.hit("partial_state_x_bit", st * 2 + bit as usize);
                if pending_before < 10 {
                    // (a) the first ten bits since the last frame boundary / clear(): 'incomplete'
                    if r != FRes::Pending {
                        fail!(
                            'ops,
                            i,
                            "ten-incomplete-then-wholeword",
                            "add_bit({}) with {} bits pending since the last frame boundary or clear() returned {} instead of Ok(None) (bit {} of this op)",
                            bit as u8,
                            pending_before,
                            r.show(),
                            j
                        );
                    }
                } else {
                    // (b) the 11th bit: exactly what whole-word decoding of these 11 bits returns,
                    // asked of a fresh decoder and of this very object
                    let mut eleven = snapshot;
                    eleven.push(bit);
                    let w = bits_word(&eleven);
                    let wf = FRes::of_word(&Ps2Decoder::new().add_word(w));
                    let ws = FRes::of_word(&real.add_word(w));
                    env.cov.api_calls += 2;
                    env.cov.evaluations += 2;
                    if r != wf || r != ws {
                        fail!(
                            'ops,
                            i,
                            "ten-incomplete-then-wholeword",
                            "11th add_bit returned {}; add_word({:03X}) of the same 11 bits returns {} on a fresh decoder and {} on this decoder{}",
                            r.show(),
                            w,
                            wf.show(),
                            ws.show(),
                            match after_clear_from {
                                Some(n) => format!(" (first frame after clear() with {} bits pending)", n),
                                None => String::new(),
                            }
                        );
                    }
                    // ... and of its near neighbours (same payload, damaged framing bits), which a
                    // host that mixes the two entry points could present next
                    for v in [w ^ 0x001, w ^ 0x400, w ^ 0x401, w ^ 0x200] {
                        let a = FRes::of_word(&real.add_word(v));
                        let b = FRes::of_word(&Ps2Decoder::new().add_word(v));
                        env.cov.api_calls += 2;
                        env.cov.evaluations += 1;
                        if a != b {
                            fail!(
                                'ops,
                                i,
                                "wholeword-independent-of-partial-frame",
                                "right after shifting in the frame {:03X} ({}), add_word({:03X}) on the same decoder returned {}, a fresh decoder returns {}",
                                w,
                                r.show(),
                                v,
                                a.show(),
                                b.show()
                            );
                        }
                    }
                    if let Some(pc) = prev_class {
                        env.cov.hit("prev_verdict_class_x_next_word", pc * 2048 + w as usize);
                        if pc != 0 {
                            env.cov.probe("frame_right_after_rejected_frame");
                        }
                    }
                    if let Some(pw) = prev_word {
                        env.cov.hit("ordered_word_pairs", (pw as usize) * 2048 + w as usize);
                    }
                    if let Some(n) = after_clear_from {
                        env.cov.hit("word_after_clear_from_partial", n * 2048 + w as usize);
                    }
                    prev_class = Some(frame_verdict(&word_bits(w)).class()); // model side: coverage must not depend on the code under test
                    prev_word = Some(w);
                    after_clear_from = None;
                }
                if j + 1 == bits.len() {
                    final_res = Some(r);
                }
            }
            // (c) bounded recovery, at the typist's level: once clear() has been called, an
            // undamaged frame decodes as whole-word decoding of what the device sent
            if let (Some(sent), true, WFault::None) = (sent, aligned, fault) {
                let want = FRes::of_word(&Ps2Decoder::new().add_word(bits_word(&encode_frame(sent))));
                env.cov.api_calls += 1;
                env.cov.evaluations += 1;
                env.cov.probe("aligned_clean_frame_checked");
                if faults_seen && cleared_since_fault {
                    env.cov.probe("recovered_after_watchdog_clear");
                }
                if final_res != Some(want) {
                    fail!(
                        'ops,
                        i,
                        "recovery-after-clear",
                        "receiver was at a frame boundary (start of run or clear()); the device sent {:02X} undamaged; bit-serial result {}, whole-word decoding of that frame gives {}",
                        sent,
                        final_res.map(|r| r.show()).unwrap_or_default(),
                        want.show()
                    );
                }
            }
            match top.op {
                Op::Frame { .. } | Op::Noise { .. } => {
                    if bits.len() != 11 {
                        aligned = false;
                    }
                }
                Op::Edge { .. } => aligned = false,
                _ => {}
            }
            if env.verbose {
                env.log.push(format!("op {} {} -> {} bits -> {} (pending now {})", i, op_show(&top.op), bits.len(), final_res.map(|r| r.show()).unwrap_or_default(), model.pending()));
            }
        }
        env.cov.sim_time_ns += last_t as u128;
        if any_fault {
            env.cov.faulty_runs += 1;
        } else {
            env.cov.fault_free_runs += 1;
        }
        if let Some(v) = &violation {
            h.mix(crate::rng::fnv(v.oracle.as_bytes()));
        }
        Outcome { violation, log_hash: h.0 }
    }
}

impl Scenario for Bits {
    fn id(&self) -> &'static str {
        self.pid()
    }
    fn level(&self) -> &'static str {
        match self.prop {
            WProp::C05 => "fault_enumeration",
            WProp::C06 => "exploration",
        }
    }
    fn runs(&self, tier: Tier) -> u64 {
        match tier {
            Tier::Quick => 400000,
            Tier::Thorough => 16000000,
        }
    }
    fn declare(&self, cov: &mut Cov) {
        match self.prop {
            WProp::C05 => {
                cov.declare("words_presented", 2048);
                cov.declare("byte_x_single_flip", 256 * 11);
                cov.declare("byte_x_double_flip", 256 * 55);
                cov.declare("bytes_round_tripped", 256);
                cov.declare("words_via_keyboard_add_word", 2048);
            }
            WProp::C06 => {
                cov.declare("partial_state_x_bit", 2047 * 2);
                cov.declare("clear_at_pending_count", 11);
                cov.declare("prev_verdict_class_x_next_word", 4 * 2048);
                cov.declare("ordered_word_pairs", 2048 * 2048);
                cov.declare("word_after_clear_from_partial", 11 * 2048);
            }
        }
        for k in ["flip1", "flip2", "flip3plus", "drop_edge", "extra_edge", "truncate", "noise_frame", "stray_edge", "early_timeout", "clear_with_nothing_pending", "missed_or_late_timeout"] {
            cov.fault_declare(k);
        }
        cov.probe_declare("frame_right_after_rejected_frame");
        cov.probe_declare("aligned_clean_frame_checked");
        cov.probe_declare("watchdog_clear_after_fault");
        if self.prop == WProp::C05 {
            cov.probe_declare("frame_checked_in_stream");
            cov.probe_declare("frame_checked_via_keyboard_add_bit");
            cov.probe_declare("queued_event_processed_between_two_bits");
        }
        if self.prop == WProp::C06 {
            cov.probe_declare("clear_with_10_bits_pending");
            cov.probe_declare("recovered_after_watchdog_clear");
            cov.probe_declare("add_word_on_busy_decoder");
            cov.probe_declare("keyboard_bit_route_vs_word_route");
            cov.probe_declare("queued_event_processed_between_two_bits");
        } else {
            cov.probe_declare("single_flip_rejected");
            cov.probe_declare("double_flip_accepted_with_changed_byte");
            cov.probe_declare("double_flip_rejected");
        }
    }

    fn generate(&self, rng: &mut Rng, run: u64, tier: Tier) -> Trace {
        let mut cfg = Cfg::default();
        cfg.set = 2;
        let rate_class = (run % 4) as u8;
        cfg.rate = rate_class;
        cfg.obj = ((run / 16) % 2) as u8; // 1: the long-lived decoder is built through Default
        let rate_pct = [0u64, 1, 10, 40][rate_class as usize];
        // wire timing knobs (randomised per run: correctness must not depend on one timeout)
        let period = rng.range(60, 100) * US;
        let wd_factor_x2 = *rng.pick(&[3u64, 4, 10, 20, 40]); // 1.5 .. 20 bit periods
        let skew_pct = rng.range(50, 200);
        let timeout = period * wd_factor_x2 / 2 * skew_pct / 100;
        let via_run = if self.prop == WProp::C05 && (run / 4) % 2 == 1 { Via::Word } else { Via::Bit };
        let style = STYLES[((run / 8) % STYLES.len() as u64) as usize];
        let max_actions = if tier == Tier::Quick { 30 } else { 80 };
        // endurance stratum: one run in 4096 is a long session (thousands of frames) on a host
        // whose watchdog never fires, so the bit counter runs for tens of thousands of bits
        // without a single clear()
        let endurance = is_endurance(run);
        let actions = if endurance { rng.range(3000, 3400) as usize } else { marathon(run, rng.range(4, max_actions) as usize) };
        let p = TypistParams { style, actions, stratum: ((run % 3) as u8, ((run / 3) % 16) as u8) };
        let session = type_session(rng, &cfg, &p);
        let (rate_class, rate_pct) = if endurance { (0u8, 0u64) } else { (rate_class, rate_pct) };
        cfg.rate = rate_class;
        let mut kinds = rng.below(1 << 10) as u32;
        if kinds == 0 {
            kinds = 0x3FF;
        }
        let watchdog_ok = !(rate_class != 0 && rng.chance(1, 10));
        let nseq = session.len();
        let fault_limit = nseq * 2 / 3;
        // a correlated fault: for a stretch of the session every frame arrives with its parity
        // bit inverted (an even-parity device, a systematically mis-sampled bit); stretches of a
        // few dozen frames and around the 256 mark
        let bad_parity_stretch: Option<(usize, usize)> = if rate_pct > 0 && rng.chance(1, 12) {
            let len = match rng.below(3) {
                0 => rng.range(30, 45),
                1 => rng.range(250, 262),
                _ => rng.range(258, 400),
            } as usize;
            Some((rng.below(fault_limit.max(1) as u64) as usize, len))
        } else {
            None
        };
        let mut stretch_left = 0usize;
        let mut ops: Vec<TOp> = Vec::new();
        let mut t: u64;
        let mut last_edge: u64 = 0;
        for (si, sop) in session.iter().enumerate() {
            let bytes = match sop.op {
                Op::Key { pfx, code, brk, .. } => encode_set2(pfx, code, brk),
                _ => continue,
            };
            t = sop.t.max(last_edge + period);
            // watchdog: line idle longer than the timeout -> clear()
            let in_fault_zone = si < fault_limit && rate_pct > 0;
            if t - last_edge > timeout && !ops.is_empty() && !endurance {
                if watchdog_ok || !in_fault_zone {
                    ops.push(TOp { t: last_edge + timeout, op: Op::Clear });
                }
            }
            if let Some((at, len)) = bad_parity_stretch {
                if si == at {
                    stretch_left = len;
                }
            }
            for b in bytes {
                let mut fault = WFault::None;
                let mut skip_frame = false;
                if stretch_left > 0 {
                    stretch_left -= 1;
                    ops.push(TOp { t, op: Op::Frame { sent: b, fault: WFault::Flip(1 << 9), via: via_run } });
                    t += 11 * period;
                    last_edge = t;
                    continue;
                }
                if in_fault_zone && rng.chance(rate_pct, 100) {
                    for _ in 0..8 {
                        let k = rng.below(10) as u32;
                        if kinds & (1 << k) == 0 {
                            continue;
                        }
                        match k {
                            0 => fault = WFault::Flip(1 << rng.below(11)),
                            1 => {
                                let i = rng.below(11);
                                let mut j = rng.below(11);
                                if j == i {
                                    j = (j + 1) % 11;
                                }
                                fault = WFault::Flip((1 << i) | (1 << j));
                            }
                            2 => fault = WFault::Flip((rng.below(0x7FF) as u16 + 1) & 0x7FF),
                            3 => fault = WFault::DropEdge(rng.below(11) as u8),
                            4 => fault = WFault::ExtraEdge(rng.below(12) as u8, rng.bool()),
                            5 => fault = WFault::Trunc(rng.below(11) as u8),
                            6 => {
                                // line noise / stuck line: arbitrary 11-bit words before the frame
                                let stuck = rng.bool(); // a stuck/jammed line repeats the same word
                                let n = if stuck && rng.chance(1, 1500) {
                                    rng.range(65_530, 66_200) // unplugged for a minute: past the 16-bit mark
                                } else if stuck {
                                    rng.range(1, 6)
                                } else {
                                    rng.range(1, 3)
                                };
                                let w0 = match rng.below(4) {
                                    0 => 0x000,
                                    1 => 0x7FF,
                                    _ => rng.below(2048) as u16,
                                };
                                for _ in 0..n {
                                    let w = if stuck {
                                        w0
                                    } else {
                                        match rng.below(4) {
                                            0 => 0x000,
                                            1 => 0x7FF,
                                            _ => rng.below(2048) as u16,
                                        }
                                    };
                                    ops.push(TOp { t, op: Op::Noise { word: w, via: via_run } });
                                    t += 11 * period;
                                }
                            }
                            7 => {
                                ops.push(TOp { t, op: Op::Edge { bit: rng.bool() } });
                                t += period;
                            }
                            8 => {
                                // watchdog fires early, in the middle of this frame
                                let n = rng.range(1, 10) as u8;
                                let fr = encode_frame(b);
                                ops.push(TOp { t, op: Op::Frame { sent: b, fault: WFault::Trunc(n), via: Via::Bit } });
                                t += n as u64 * period;
                                ops.push(TOp { t, op: Op::Clear });
                                for bit in fr.iter().skip(n as usize) {
                                    ops.push(TOp { t, op: Op::Edge { bit: *bit } });
                                    t += period;
                                }
                                fault = WFault::None;
                                last_edge = t;
                                skip_frame = true;
                                break;
                            }
                            _ => {
                                // application calls clear() at a frame boundary for no reason
                                ops.push(TOp { t, op: Op::Clear });
                            }
                        }
                        break;
                    }
                    if skip_frame {
                        continue;
                    }
                }
                let via = match fault {
                    WFault::None | WFault::Flip(_) => via_run,
                    _ => Via::Bit,
                };
                let nbits = apply_wfault(b, fault).len() as u64;
                if matches!(fault, WFault::Flip(_)) && rng.chance(1, 3) {
                    // the resend meets the same bad line: the identical damaged frame twice in a row
                    ops.push(TOp { t, op: Op::Frame { sent: b, fault, via } });
                    t += nbits * period;
                }
                ops.push(TOp { t, op: Op::Frame { sent: b, fault, via } });
                t += nbits.max(1) * period + rng.range(0, 2) * period;
                last_edge = t;
            }
        }
        // stratified focus material, placed at the front (after a clear, aligned);
        // only faulty runs carry it, so they are numbered consecutively
        let run = (run / 4) * 3 + (run % 4).saturating_sub(1);
        let mut focus: Vec<Op> = vec![Op::Clear];
        match self.prop {
            WProp::C05 => {
                let via = if (run / 3) % 2 == 0 { Via::Bit } else { Via::Word };
                focus.push(Op::Noise { word: (run % 2048) as u16, via });
                let k = (run % (256 * 66)) as usize;
                let byte = (k / 66) as u8;
                let f = k % 66;
                if f < 11 {
                    focus.push(Op::Frame { sent: byte, fault: WFault::Flip(1 << f), via });
                } else {
                    let (i, j) = pair_from_index(f - 11);
                    focus.push(Op::Frame { sent: byte, fault: WFault::Flip((1 << i) | (1 << j)), via });
                }
                focus.push(Op::Frame { sent: (run % 256) as u8, fault: WFault::None, via });
            }
            WProp::C06 => {
                let c = (run % 4) as usize;
                let w = ((run / 4) % 2048) as u16;
                focus.push(Op::Noise { word: word_of_class(rng, c), via: Via::Bit });
                focus.push(Op::Noise { word: w, via: Via::Bit });
                // clear() with n bits pending, then an arbitrary word
                let n = (run % 11) as u8;
                focus.push(Op::Frame { sent: rng.byte(), fault: WFault::Trunc(n), via: Via::Bit });
                focus.push(Op::Clear);
                focus.push(Op::Noise { word: ((run / 11) % 2048) as u16, via: Via::Bit });
                focus.push(Op::Frame { sent: rng.byte(), fault: WFault::None, via: Via::Bit });
            }
        }
        // focus ops are faults by nature: put them at the start so the tail stays fault-free
        let mut all: Vec<TOp> = focus.into_iter().enumerate().map(|(i, op)| TOp { t: i as u64 * 12 * period, op }).collect();
        let shift = all.len() as u64 * 12 * period + 10 * MS;
        if rate_class != 0 {
            all.push(TOp { t: shift - 1, op: Op::Clear });
            all.extend(ops.into_iter().map(|o| TOp { t: o.t + shift, op: o.op }));
        } else {
            all = ops;
        }
        Trace { prop: self.pid().to_string(), cfg, ops: all, seed: 0, run: 0, expect: None }
    }

    fn execute(&self, trace: &Trace, env: &mut Env) -> Outcome {
        if self.prop == WProp::C05 {
            self.execute_c05(trace, env)
        } else {
            self.execute_c06(trace, env)
        }
    }

    fn primary_reach(&self) -> &'static str {
        match self.prop {
            WProp::C05 => "byte_x_double_flip",
            WProp::C06 => "prev_verdict_class_x_next_word",
        }
    }
    fn required(&self, cov: &Cov, _tier: Tier) -> Vec<Shortfall> {
        let mut out = Vec::new();
        match self.prop {
            WProp::C05 => {
                for m in ["words_presented", "byte_x_single_flip", "byte_x_double_flip", "bytes_round_tripped", "words_via_keyboard_add_word"] {
                    require_full(cov, m, &mut out);
                }
            }
            WProp::C06 => {
                for m in ["partial_state_x_bit", "clear_at_pending_count", "prev_verdict_class_x_next_word", "word_after_clear_from_partial"] {
                    require_full(cov, m, &mut out);
                }
            }
        }
        require_probes(cov, &mut out);
        out
    }
    fn rule(&self) -> String {
        match self.prop {
            WProp::C05 => "one evaluation = one 11-bit frame as delivered by the faulty wire whose real verdict (bit by bit on a fresh decoder / add_word on a fresh and on a busy decoder / Keyboard::add_word) was compared with the frame-rule model or with the injected-fault ground truth; distinct_nontrivial = distinct (byte, pair of flipped bit positions) double corruptions presented (bitset), single flips and all 2048 words are separate measures; faults are sampled by a seeded wire simulation and stratified by run index so the small spaces saturate".into(),
            WProp::C06 => "one evaluation = one add_bit result compared with the statement (Ok(None) for the first ten bits since the last boundary or clear(), then exactly what add_word returns for those 11 bits on a fresh decoder and on the same object), or one add_word on a decoder holding a partial frame compared with a fresh decoder, or one clean frame after clear() compared with whole-word decoding of what was sent; the frame rule itself (C05) is not consulted; distinct_nontrivial = distinct (verdict class of the preceding frame, next 11-bit word) pairs (bitset)".into(),
        }
    }
    fn assumptions(&self) -> Vec<String> {
        match self.prop {
            WProp::C05 => vec![
                "sampled, not enumerated; 'saturated' is a measured outcome of the reach bitsets".into(),
                "trusted base: frame_verdict / encode_frame in model.rs, written from the PS/2 frame description".into(),
                "each delivered frame is judged on a fresh decoder (and by add_word on a busy one), and additionally as a long-lived receiver sees it in the stream whenever that receiver is at a frame boundary by construction of the trace (start of run, or clear() since the last length-changing fault)".into(),
                "words with bits above bit 10 are outside the documented precondition and are only used by C08".into(),
            ],
            WProp::C06 => vec![
                "sampled, not enumerated; 'saturated' is a measured outcome of the reach bitsets".into(),
                "trusted base: a bit counter (RefFramer used as collector only) and a fresh instance of the real decoder's add_word; the frame rule (C05) is not consulted, so a wrong frame rule does not trip this check".into(),
            ],
        }
    }
    fn components_real(&self) -> Vec<&'static str> {
        match self.prop {
            WProp::C05 => vec!["Ps2Decoder::add_bit", "Ps2Decoder::add_word", "Keyboard::add_word", "ScancodeSet2 (mirror for Keyboard::add_word)"],
            WProp::C06 => vec!["Ps2Decoder::add_bit", "Ps2Decoder::add_word", "Ps2Decoder::clear"],
        }
    }
    fn components_model(&self) -> Vec<&'static str> {
        vec!["typist", "Set 2 keyboard device", "PS/2 wire with per-run bit period and jitter", "wire fault injector", "host ISR", "watchdog timer (per-run timeout factor and clock skew)", "RefFramer"]
    }
}
