//! The simulated environment around the crate: keyboard device (Set 2 encoder,
//! native Set 1 encoder), i8042 translation, PS/2 wire framing, and what faults
//! do to bytes and frames. Models only - nothing here calls the crate.
use crate::model::encode_frame;
use crate::op::{BFault, Cfg, WFault};
use crate::spec::{translatable, xlate};

pub const PFX_BYTES: [Option<u8>; 3] = [None, Some(0xE0), Some(0xE1)];

/// What a Set 2 keyboard sends for a physical key action.
pub fn encode_set2(pfx: u8, code: u8, brk: bool) -> Vec<u8> {
    let mut v = Vec::with_capacity(3);
    if let Some(p) = PFX_BYTES[pfx as usize % 3] {
        v.push(p);
    }
    if brk {
        v.push(0xF0);
    }
    v.push(code);
    v
}

/// What a native Set 1 (XT-style) keyboard sends.
pub fn encode_xt(pfx: u8, code: u8, brk: bool) -> Vec<u8> {
    let mut v = Vec::with_capacity(2);
    if let Some(p) = PFX_BYTES[pfx as usize % 3] {
        v.push(p);
    }
    v.push((code & 0x7F) | if brk { 0x80 } else { 0 });
    v
}

/// The i8042 in translate mode: F0 sets a flag and is swallowed; every other
/// byte goes through the table, with bit 7 set if the flag was up.
pub struct I8042 {
    pub brk: bool,
}
impl I8042 {
    pub fn new() -> I8042 {
        I8042 { brk: false }
    }
    pub fn feed(&mut self, b: u8) -> Option<u8> {
        if b == 0xF0 {
            self.brk = true;
            return None;
        }
        let out = xlate(b) | if self.brk { 0x80 } else { 0 };
        self.brk = false;
        Some(out)
    }
    pub fn translate(bytes: &[u8]) -> Vec<u8> {
        let mut c = I8042::new();
        bytes.iter().filter_map(|b| c.feed(*b)).collect()
    }
}

/// Is (pfx, code) a key the configured device can have at all?
pub fn phys_valid(cfg: &Cfg, _pfx: u8, code: u8) -> bool {
    if cfg.set == 2 {
        !matches!(code, 0xE0 | 0xE1 | 0xF0)
    } else if cfg.xt {
        code <= 0x7F
    } else {
        translatable(code)
    }
}

/// Fault-free bytes the host reads for a physical key action.
pub fn host_bytes(cfg: &Cfg, pfx: u8, code: u8, brk: bool) -> Vec<u8> {
    if cfg.set == 2 {
        encode_set2(pfx, code, brk)
    } else if cfg.xt {
        encode_xt(pfx, code, brk)
    } else {
        I8042::translate(&encode_set2(pfx, code, brk))
    }
}

/// A physical key whose final byte is itself a prefix byte value (Set 1: break
/// codes E0/E1 of codes 60/61). Such sequences are not self-delimiting - fed to
/// a decoder holding a stale prefix, the final byte opens a new sequence - so
/// no ground truth is attached to them and they do not count as "clean".
pub fn phys_ambiguous(cfg: &Cfg, pfx: u8, code: u8, brk: bool) -> bool {
    if cfg.set == 2 {
        return false;
    }
    let b = host_bytes(cfg, pfx, code, brk);
    let _ = pfx;
    matches!(b.last(), Some(0xE0) | Some(0xE1))
}

/// Apply a byte-level fault; returns the bytes delivered and whether the fault
/// actually changed anything (fired).
pub fn apply_bfault(bytes: &[u8], f: BFault) -> (Vec<u8>, bool) {
    let mut v = bytes.to_vec();
    let n = v.len();
    if n == 0 {
        return (v, false);
    }
    match f {
        BFault::None | BFault::ClearAt(_) => (v, false),
        BFault::Drop(i) => {
            v.remove(i as usize % n);
            (v, true)
        }
        BFault::Dup(i) => {
            let i = i as usize % n;
            let b = v[i];
            v.insert(i, b);
            (v, true)
        }
        BFault::Ins(i, b) => {
            v.insert(i as usize % (n + 1), b);
            (v, true)
        }
        BFault::Flip(i, bit) => {
            v[i as usize % n] ^= 1 << (bit % 8);
            (v, true)
        }
        BFault::Swap(i) => {
            if n < 2 {
                return (v, false);
            }
            let i = i as usize % (n - 1);
            if v[i] == v[i + 1] {
                return (v, false);
            }
            v.swap(i, i + 1);
            (v, true)
        }
        BFault::Repl(i, b) => {
            let i = i as usize % n;
            if v[i] == b {
                return (v, false);
            }
            v[i] = b;
            (v, true)
        }
    }
}

/// Bits the host sees for one frame under a wire fault.
pub fn apply_wfault(sent: u8, f: WFault) -> Vec<bool> {
    let fr = encode_frame(sent);
    let mut v: Vec<bool> = fr.to_vec();
    match f {
        WFault::None => {}
        WFault::Flip(mask) => {
            for (i, b) in v.iter_mut().enumerate() {
                if (mask >> i) & 1 != 0 {
                    *b = !*b;
                }
            }
        }
        WFault::DropEdge(i) => {
            v.remove(i as usize % 11);
        }
        WFault::ExtraEdge(i, val) => {
            v.insert(i as usize % 12, val);
        }
        WFault::Trunc(n) => {
            v.truncate(n as usize % 11);
        }
    }
    v
}

pub fn wfault_name(f: &WFault) -> &'static str {
    match f {
        WFault::None => "none",
        WFault::Flip(m) => match m.count_ones() {
            0 => "none",
            1 => "flip1",
            2 => "flip2",
            _ => "flip3plus",
        },
        WFault::DropEdge(_) => "drop_edge",
        WFault::ExtraEdge(..) => "extra_edge",
        WFault::Trunc(_) => "truncate",
    }
}
pub fn bfault_name(f: &BFault) -> &'static str {
    match f {
        BFault::None => "none",
        BFault::Drop(_) => "drop_byte",
        BFault::Dup(_) => "dup_byte",
        BFault::Ins(..) => "garbage_insert",
        BFault::Flip(..) => "bit_flip_in_byte",
        BFault::Swap(_) => "swap_adjacent",
        BFault::Repl(..) => "garbage_replace",
        BFault::ClearAt(_) => "clear_mid_sequence",
    }
}
