//! Thin run-time-selectable wrappers around the crate's real objects, so that
//! one `KbAny` / `DynSet` / `DynLayout` serves every configuration. They only
//! forward; the recording layout is the single stub. `KbAny` holds a
//! `Keyboard` over the *concrete* scancode-set type (never over a wrapper), so
//! that anything the crate does through the `ScancodeSet` trait reaches the real
//! implementation.
use pc_keyboard::layouts::*;
use pc_keyboard::{DecodedKey, Error, HandleControl, KeyCode, KeyEvent, Keyboard, KeyboardLayout, Modifiers, ScancodeSet, ScancodeSet1, ScancodeSet2};
use std::cell::RefCell;
use std::rc::Rc;

pub enum DynSet {
    S1(ScancodeSet1),
    S2(ScancodeSet2),
}
impl DynSet {
    pub fn new(set: u8) -> DynSet {
        if set == 1 {
            DynSet::S1(ScancodeSet1::new())
        } else {
            DynSet::S2(ScancodeSet2::new())
        }
    }
}
impl DynSet {
    /// the same objects built through their `Default` impls (a public way in that is
    /// easy to forget)
    pub fn via_default(set: u8) -> DynSet {
        if set == 1 {
            DynSet::S1(ScancodeSet1::default())
        } else {
            DynSet::S2(ScancodeSet2::default())
        }
    }
    pub fn advance_state(&mut self, code: u8) -> Result<Option<KeyEvent>, Error> {
        match self {
            DynSet::S1(s) => s.advance_state(code),
            DynSet::S2(s) => s.advance_state(code),
        }
    }
}

/// A user-supplied scancode set: forwards to the real decoder and records every byte it
/// is handed (C18: "only accepted bytes reach the scancode decoder, bytes go straight to it").
pub struct SpySet {
    pub inner: DynSet,
    pub seen: Rc<RefCell<Vec<u8>>>,
}
impl ScancodeSet for SpySet {
    fn advance_state(&mut self, code: u8) -> Result<Option<KeyEvent>, Error> {
        self.seen.borrow_mut().push(code);
        let r = self.inner.advance_state(code);
        // a user-supplied set may answer with any error kind: this one reports the keyboard's
        // RESEND request (FE) as a parity error; Keyboard must hand that back unchanged
        if code == 0xFE && r.is_err() {
            return Err(Error::ParityError);
        }
        r
    }
}

/// A real `Keyboard` over the concrete scancode set selected at run time (or over the spy).
pub enum KbAny {
    K1(Keyboard<DynLayout, ScancodeSet1>),
    K2(Keyboard<DynLayout, ScancodeSet2>),
    K3(Keyboard<DynLayout, SpySet>),
}
macro_rules! kb_fwd {
    ($self:ident, $k:ident => $e:expr) => {
        match $self {
            KbAny::K1($k) => $e,
            KbAny::K2($k) => $e,
            KbAny::K3($k) => $e,
        }
    };
}
impl KbAny {
    pub fn new(set: u8, layout: DynLayout, h: HandleControl) -> KbAny {
        if set == 1 {
            KbAny::K1(Keyboard::new(ScancodeSet1::new(), layout, h))
        } else {
            KbAny::K2(Keyboard::new(ScancodeSet2::new(), layout, h))
        }
    }
    pub fn with_spy(set: u8, layout: DynLayout, h: HandleControl, seen: Rc<RefCell<Vec<u8>>>) -> KbAny {
        KbAny::K3(Keyboard::new(SpySet { inner: DynSet::new(set), seen }, layout, h))
    }
    pub fn add_bit(&mut self, bit: bool) -> Result<Option<KeyEvent>, Error> {
        kb_fwd!(self, k => k.add_bit(bit))
    }
    pub fn add_word(&mut self, w: u16) -> Result<Option<KeyEvent>, Error> {
        kb_fwd!(self, k => k.add_word(w))
    }
    pub fn add_byte(&mut self, b: u8) -> Result<Option<KeyEvent>, Error> {
        kb_fwd!(self, k => k.add_byte(b))
    }
    pub fn process_keyevent(&mut self, e: KeyEvent) -> Option<DecodedKey> {
        kb_fwd!(self, k => k.process_keyevent(e))
    }
    pub fn clear(&mut self) {
        let _ = kb_fwd!(self, k => k.clear());
    }
    pub fn set_ctrl_handling(&mut self, h: HandleControl) {
        let _ = kb_fwd!(self, k => k.set_ctrl_handling(h));
    }
    pub fn get_ctrl_handling(&self) -> HandleControl {
        kb_fwd!(self, k => k.get_ctrl_handling())
    }
    pub fn get_modifiers(&self) -> &Modifiers {
        kb_fwd!(self, k => k.get_modifiers())
    }
}

pub const NLAYOUTS: usize = 10;
pub const NLAYOUT_OBJS: usize = 30;
pub const LAYOUT_NAMES: [&str; NLAYOUTS] =
    ["DVP104Key", "Dvorak104Key", "Us104Key", "Uk105Key", "Jis109Key", "Azerty", "Colemak", "De105Key", "No105Key", "FiSe105Key"];

pub fn any_layout(i: usize) -> AnyLayout {
    match i % NLAYOUTS {
        0 => AnyLayout::DVP104Key(DVP104Key),
        1 => AnyLayout::Dvorak104Key(Dvorak104Key),
        2 => AnyLayout::Us104Key(Us104Key),
        3 => AnyLayout::Uk105Key(Uk105Key),
        4 => AnyLayout::Jis109Key(Jis109Key),
        5 => AnyLayout::Azerty(Azerty),
        6 => AnyLayout::Colemak(Colemak),
        7 => AnyLayout::De105Key(De105Key),
        8 => AnyLayout::No105Key(No105Key),
        _ => AnyLayout::FiSe105Key(FiSe105Key),
    }
}

pub fn direct_map(i: usize, k: KeyCode, m: &Modifiers, h: HandleControl) -> DecodedKey {
    match i % NLAYOUTS {
        0 => DVP104Key.map_keycode(k, m, h),
        1 => Dvorak104Key.map_keycode(k, m, h),
        2 => Us104Key.map_keycode(k, m, h),
        3 => Uk105Key.map_keycode(k, m, h),
        4 => Jis109Key.map_keycode(k, m, h),
        5 => Azerty.map_keycode(k, m, h),
        6 => Colemak.map_keycode(k, m, h),
        7 => De105Key.map_keycode(k, m, h),
        8 => No105Key.map_keycode(k, m, h),
        _ => FiSe105Key.map_keycode(k, m, h),
    }
}

#[derive(Clone, Debug, PartialEq)]
pub struct Asked {
    pub recorder: u8,
    pub key: KeyCode,
    pub mods: Modifiers,
    pub map: bool,
    pub token: u32,
    /// what the recorder answered: mostly a private-use code point unique in the run, but
    /// also - as any user layout may - an arbitrary raw key (lock keys included) or a plain
    /// ASCII letter/digit
    pub answer: DecodedKey,
}

#[derive(Default)]
pub struct RecLog {
    /// consultations since the executor last drained the log
    pub asked: Vec<Asked>,
    /// run-global consultation counter: every answer is a token never used before
    pub counter: u32,
}
pub type AskLog = Rc<RefCell<RecLog>>;

/// Layout object `obj` in 0..30: 0..10 the layout types themselves, 10..20
/// `AnyLayout` by value, 20..30 `&AnyLayout`; or the recording layout.
pub enum DynLayout {
    Direct(usize),
    Any(AnyLayout),
    AnyRef(AnyLayout),
    Recorder { id: u8, log: AskLog },
    /// answers every key with its own raw key (used where only modifier tracking matters)
    Null,
}
impl DynLayout {
    pub fn object(obj: usize) -> DynLayout {
        match (obj % NLAYOUT_OBJS) / NLAYOUTS {
            0 => DynLayout::Direct(obj % NLAYOUTS),
            1 => DynLayout::Any(any_layout(obj % NLAYOUTS)),
            _ => DynLayout::AnyRef(any_layout(obj % NLAYOUTS)),
        }
    }
}
pub fn layout_obj_name(obj: usize) -> String {
    let n = LAYOUT_NAMES[obj % NLAYOUTS];
    match (obj % NLAYOUT_OBJS) / NLAYOUTS {
        0 => n.to_string(),
        1 => format!("AnyLayout::{}", n),
        _ => format!("&AnyLayout::{}", n),
    }
}

pub fn hc(map: bool) -> HandleControl {
    if map {
        HandleControl::MapLettersToUnicode
    } else {
        HandleControl::Ignore
    }
}

impl KeyboardLayout for DynLayout {
    fn map_keycode(&self, keycode: KeyCode, modifiers: &Modifiers, handle_ctrl: HandleControl) -> DecodedKey {
        match self {
            DynLayout::Direct(i) => direct_map(*i, keycode, modifiers, handle_ctrl),
            DynLayout::Any(a) => a.map_keycode(keycode, modifiers, handle_ctrl),
            DynLayout::AnyRef(a) => {
                let r: &AnyLayout = a;
                <&AnyLayout as KeyboardLayout>::map_keycode(&r, keycode, modifiers, handle_ctrl)
            }
            DynLayout::Null => DecodedKey::RawKey(keycode),
            DynLayout::Recorder { id, log } => {
                let mut l = log.borrow_mut();
                // unique token per consultation, in the private-use area
                let token = 0xF0000 + (l.counter % 0xFFFD);
                let answer = match l.counter % 7 {
                    5 => DecodedKey::RawKey(crate::keys::ALL_KEYS[(l.counter as usize / 7 * 5 + 3) % crate::keys::NKEYS]),
                    6 => DecodedKey::Unicode(b"abcxyzABCXYZ0189 mM"[(l.counter as usize / 7) % 19] as char),
                    // ... a character from some script block or other
                    3 if (l.counter / 7) % 2 == 1 => {
                        const BLOCKS: [u32; 16] = [0x00A0, 0x0100, 0x0370, 0x0400, 0x0530, 0x05D0, 0x0600, 0x0900, 0x0E00, 0x3040, 0x4E00, 0xAC00, 0x2000, 0x2190, 0x1F600, 0xE0100];
                        let c = l.counter as u32 / 14;
                        let cp = BLOCKS[(c % 16) as usize] + (c / 16 * 37) % 0x80;
                        DecodedKey::Unicode(char::from_u32(cp).unwrap_or('\u{3a9}'))
                    }
                    // ... or anything else a char can be: NUL, C0 controls, DEL, combining marks
                    // (dead keys), Latin-1, the ends of the code space
                    4 => DecodedKey::Unicode(
                        ['\0', '\u{1}', '\u{3}', '\u{8}', '\u{1a}', '\u{1b}', '\u{7f}', '\u{a0}', '\u{e9}', '\u{300}', '\u{301}', '\u{308}', '\u{36f}', '\u{d7ff}', '\u{e000}', '\u{fffd}', '\u{10ffff}']
                            [(l.counter as usize / 7) % 17],
                    ),
                    _ => DecodedKey::Unicode(char::from_u32(token).unwrap_or('\u{F0000}')),
                };
                l.counter += 1;
                let ans = answer;
                l.asked.push(Asked { recorder: *id, key: keycode, mods: modifiers.clone(), map: handle_ctrl == HandleControl::MapLettersToUnicode, token, answer: ans });
                ans
            }
        }
    }
}
