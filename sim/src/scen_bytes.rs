//! BYTES scenarios: typist -> keyboard device (-> i8042) -> byte faults -> the
//! real scancode decoders. Serves C01 (Set 2 lock-step), C02 (Set 1 lock-step)
//! and C07 (resynchronisation, table-independent).
use crate::cover::Cov;
use crate::dynobj::*;
use crate::keys::*;
use crate::model::*;
use crate::op::*;
use crate::rng::{LogHash, Rng};
use crate::scen::*;
use crate::typist::*;
use crate::world::*;
use pc_keyboard::{Keyboard, KeyCode, KeyState, ScancodeSet};

#[derive(Clone, Copy, PartialEq, Eq)]
pub enum BProp {
    C01,
    C02,
    C07,
}

pub struct Bytes {
    pub prop: BProp,
}

fn ctx2_of(pfx: u8, brk: bool) -> usize {
    (pfx as usize % 3) + if brk { 3 } else { 0 }
}

/// An op that drives a decoder sitting in its initial condition into context
/// `ctx` and then feeds it `byte` (the stratified "focus cell" of a run).
pub fn focus_op(cfg: &Cfg, ctx: usize, byte: u8) -> Op {
    if cfg.set == 2 {
        let pfx = (ctx % 3) as u8;
        let brk = ctx >= 3;
        if !matches!(byte, 0xE0 | 0xE1 | 0xF0) {
            Op::Key { pfx, code: byte, brk, fault: BFault::None }
        } else {
            // last byte of the sequence replaced by the prefix byte under test
            let last = (encode_set2(pfx, 0x1C, brk).len() - 1) as u8;
            Op::Key { pfx, code: 0x1C, brk, fault: BFault::Repl(last, byte) }
        }
    } else {
        let pfx = (ctx % 3) as u8;
        let brk = byte & 0x80 != 0;
        let code7 = byte & 0x7F;
        if cfg.xt {
            // native encoding reaches every byte directly
            let last = if pfx == 0 { 0 } else { 1 };
            if pfx == 0 && matches!(byte, 0xE0 | 0xE1) {
                // the prefix cells themselves: any prefixed key passes through them
                Op::Key { pfx: if byte == 0xE0 { 1 } else { 2 }, code: 0x1D, brk: false, fault: BFault::None }
            } else {
                let _ = last;
                Op::Key { pfx, code: code7, brk, fault: BFault::None }
            }
        } else {
            if pfx == 0 && matches!(byte, 0xE0 | 0xE1) {
                return Op::Key { pfx: if byte == 0xE0 { 1 } else { 2 }, code: 0x14, brk: false, fault: BFault::None };
            }
            // a Set 2 code the controller translates to this byte, if there is one
            for c in 0u16..=0x84 {
                let c = c as u8;
                if crate::spec::translatable(c) && crate::spec::xlate(c) == code7 {
                    return Op::Key { pfx, code: c, brk, fault: BFault::None };
                }
            }
            let last = if pfx == 0 { 0 } else { 1 };
            Op::Key { pfx, code: 0x1C, brk: false, fault: BFault::Repl(last, byte) }
        }
    }
}

impl Bytes {
    fn pid(&self) -> &'static str {
        match self.prop {
            BProp::C01 => "C01",
            BProp::C02 => "C02",
            BProp::C07 => "C07",
        }
    }
    fn ncells(&self, set: u8) -> usize {
        if set == 2 {
            6 * 256
        } else {
            3 * 256
        }
    }
}

pub fn bytes_of_op(cfg: &Cfg, op: &Op) -> Option<(Vec<u8>, bool)> {
    // -> (bytes delivered, clean?)
    match op {
        Op::Key { pfx, code, brk, fault } => {
            let valid = *pfx <= 2 && phys_valid(cfg, *pfx, *code);
            let base = host_bytes(cfg, *pfx % 3, *code, *brk);
            let (b, fired) = apply_bfault(&base, *fault);
            let clean = valid && !fired && !phys_ambiguous(cfg, *pfx % 3, *code, *brk);
            Some((b, clean))
        }
        Op::Byte { b } => Some((vec![*b], false)),
        _ => None,
    }
}

impl Scenario for Bytes {
    fn id(&self) -> &'static str {
        self.pid()
    }
    fn level(&self) -> &'static str {
        "exploration"
    }
    fn runs(&self, tier: Tier) -> u64 {
        match tier {
            Tier::Quick => 400000,
            Tier::Thorough => 14000000,
        }
    }
    fn declare(&self, cov: &mut Cov) {
        match self.prop {
            BProp::C01 => {
                cov.declare("cells_ctx_x_byte", 1536);
                cov.declare("two_byte_windows", 6 * 65536);
                cov.declare("key_x_state_delivered", NKEYS * 3);
            }
            BProp::C02 => {
                cov.declare("cells_ctx_x_byte", 768);
                cov.declare("two_byte_windows", 3 * 65536);
                cov.declare("key_x_state_delivered", NKEYS * 3);
            }
            BProp::C07 => {
                cov.declare("cells_set_ctx_x_byte", 768 + 1536);
                cov.declare("three_byte_windows_after_boundary", 2 << 24);
                cov.declare("stale_ctx_x_next_byte_after_last_fault", 768 + 1536);
            }
        }
        for k in ["drop_byte", "dup_byte", "garbage_insert", "bit_flip_in_byte", "swap_adjacent", "garbage_replace", "raw_garbage_byte"] {
            cov.fault_declare(k);
        }
        cov.probe_declare("fault_while_prefix_pending");
        cov.probe_declare("status_byte_00_or_AA_after_prefix");
        cov.probe_declare("clean_sequence_right_after_fault");
        cov.probe_declare("typematic_repeat");
        if self.prop != BProp::C07 {
            cov.probe_declare("ground_truth_checked");
            cov.probe_declare("keyboard_clear_inside_a_key_sequence");
            cov.probe_declare("rejected_frame_between_the_bytes_of_the_stream");
        } else {
            cov.probe_declare("recovery_checked");
            cov.probe_declare("obs_shadow_replaced_after_error");
            cov.probe_declare("obs_shadow_replaced_after_event");
        }
    }

    fn generate(&self, rng: &mut Rng, run: u64, tier: Tier) -> Trace {
        let mut cfg = Cfg::default();
        match self.prop {
            BProp::C01 => cfg.set = 2,
            BProp::C02 => {
                cfg.set = 1;
                cfg.xt = (run / 4) % 2 == 1;
            }
            BProp::C07 => {
                cfg.set = if (run / 4) % 2 == 0 { 2 } else { 1 };
                cfg.xt = cfg.set == 1 && (run / 8) % 2 == 1;
            }
        }
        if self.prop == BProp::C07 && run % 16 == 9 {
            // a raw-garbage member of the swarm: no typist at all, the host reads a byte stream
            // that walks the three-byte windows after a boundary systematically (16 per run,
            // each followed by one ordinary code byte, which ends any sequence), then noise
            cfg.set = if (run / 16) % 2 == 0 { 2 } else { 1 };
            cfg.xt = cfg.set == 1;
            cfg.rate = 3;
            cfg.obj = ((run / 32) % 2) as u8;
            let g = run / 32;
            let mut ops: Vec<TOp> = Vec::new();
            let mut t = 0u64;
            for j in 0..16u64 {
                let w = (g * 16 + j) % (1 << 24);
                for b in [(w >> 16) as u8, (w >> 8) as u8, w as u8, 0x1C] {
                    ops.push(TOp { t, op: Op::Byte { b } });
                    t += MS;
                }
            }
            for _ in 0..rng.range(0, 60) {
                ops.push(TOp { t, op: Op::Byte { b: rng.byte() } });
                t += MS;
            }
            // the keyboard recovers: an ordinary key typed twice
            let known = known_phys(&cfg);
            for _ in 0..3 {
                let (kp, kc) = *rng.pick(&known);
                ops.push(TOp { t, op: Op::Key { pfx: kp, code: kc, brk: false, fault: BFault::None } });
                ops.push(TOp { t: t + 1, op: Op::Key { pfx: kp, code: kc, brk: true, fault: BFault::None } });
                t += 10 * MS;
            }
            return Trace { prop: self.pid().to_string(), cfg, ops, seed: 0, run, expect: None };
        }
        let rate_class = (run % 4) as u8;
        cfg.rate = rate_class;
        cfg.obj = ((run / 16) % 2) as u8; // 1: the decoder under test is built through Default
        let rate_pct = [0u64, 1, 10, 40][rate_class as usize];
        let ncells = self.ncells(cfg.set) as u64;
        // faulty runs are numbered consecutively to walk the focus cells
        let fk = (run / 4) * 3 + (run % 4).saturating_sub(1);
        let focus = (fk % ncells) as usize;
        let stratum = ((focus / 256 % 3) as u8, ((focus % 256) / 16) as u8);
        let style = STYLES[((run / 4) % STYLES.len() as u64) as usize];
        let max_actions = if tier == Tier::Quick { 80 } else { 200 };
        // endurance stratum: one session in 4096 is a day at the office - far more than 65,536
        // separate key presses on one decoder
        let actions = if is_endurance(run) { rng.range(400_000, 450_000) as usize } else { marathon(run, rng.range(10, max_actions) as usize) };
        let p = TypistParams { style, actions, stratum };
        let mut ops = type_session(rng, &cfg, &p);
        // swarm: a random non-empty subset of fault kinds is enabled in this run
        let mut mask = rng.below(256) as u32;
        if mask == 0 {
            mask = 0xFF;
        }
        inject_bfaults(rng, &cfg, &mut ops, rate_pct, mask, stratum);
        // the watchdog / the application may call Keyboard::clear() at any moment, also between
        // the bytes of one key sequence; that is no fault and must not change what bytes mean
        if self.prop != BProp::C07 {
            for o in ops.iter_mut() {
                if let Op::Key { pfx, code, brk, fault: BFault::None } = o.op {
                    if rng.chance(1, 15) {
                        o.op = Op::Key { pfx, code, brk, fault: BFault::ClearAt(rng.range(0, 2) as u8) };
                    }
                }
            }
        }
        if rate_class != 0 {
            // the focus cell: [ordinary key press + release] then the focus op,
            // placed in the part of the run where faults are allowed
            let limit = (ops.len() * 2 / 3).max(1);
            let pos = rng.below(limit as u64) as usize;
            let t = ops.get(pos).map(|o| o.t).unwrap_or(0);
            let known = known_phys(&cfg);
            let (kp, kc) = *rng.pick(&known);
            let f = focus_op(&cfg, focus / 256, (focus % 256) as u8);
            let ins = [
                TOp { t, op: Op::Key { pfx: kp, code: kc, brk: false, fault: BFault::None } },
                TOp { t: t + 1, op: Op::Key { pfx: kp, code: kc, brk: true, fault: BFault::None } },
                TOp { t: t + 2, op: f },
            ];
            for (j, o) in ins.iter().enumerate() {
                ops.insert(pos + j, *o);
            }
        }
        Trace { prop: self.pid().to_string(), cfg, ops, seed: 0, run, expect: None }
    }

    fn execute(&self, trace: &Trace, env: &mut Env) -> Outcome {
        let cfg = &trace.cfg;
        let pid = self.pid();
        let mut h = LogHash::new();
        let mut real = if cfg.obj == 1 { DynSet::via_default(cfg.set) } else { DynSet::new(cfg.set) };
        let mut kb = KbAny::new(cfg.set, DynLayout::Direct(2), hc(true));
        // the other public routes by which the same bytes reach the same decoder: as frames handed
        // to Keyboard::add_word, and bit by bit to Keyboard::add_bit (a damaged frame in between
        // delivers no byte and so is not part of the stream)
        let mut kb_word = KbAny::new(cfg.set, DynLayout::Direct(2), hc(true));
        let mut kb_bit = KbAny::new(cfg.set, DynLayout::Direct(2), hc(true));
        let mut m2 = RefSet2::new();
        let mut m1 = RefSet1::new();
        let mut shadow = DynSet::new(cfg.set);
        // the decoder as most programs hold it: inside a Keyboard, fed by add_byte
        let mut kb_shadow = KbAny::new(cfg.set, DynLayout::Direct(2), hc(true));
        let mut kb_pend_run = 0usize;
        let mut pend_run = 0usize;
        let pend_limit = if cfg.set == 2 { 2 } else { 1 };
        let mut prev_clean = true;
        let mut any_fault = false;
        // sliding window of (ctx before, byte) for window coverage
        let mut win: Vec<(usize, u8)> = Vec::with_capacity(4);
        let cell_base = if cfg.set == 2 { 768 } else { 0 }; // C07's combined measure
        let mut violation: Option<Violation> = None;
        let mut since_fault = usize::MAX; // bytes since the last fault op ended
        let mut last_t = 0u64;

        'ops: for (i, top) in trace.ops.iter().enumerate() {
            env.cur_op = i;
            last_t = last_t.max(top.t);
            let (bytes, clean) = match bytes_of_op(cfg, &top.op) {
                Some(x) => x,
                None => continue,
            };
            h.mix(top.op.kind() as u64 ^ ((bytes.len() as u64) << 8));
            if !clean {
                // count the fault kind that actually fired
                match &top.op {
                    Op::Key { fault, pfx, code, brk } => {
                        let base = host_bytes(cfg, *pfx % 3, *code, *brk);
                        if apply_bfault(&base, *fault).1 {
                            env.cov.fault(bfault_name(fault));
                            any_fault = true;
                            let ctx_now = if cfg.set == 2 { m2.ctx as usize } else { m1.ctx as usize };
                            if ctx_now != 0 {
                                env.cov.probe("fault_while_prefix_pending");
                            }
                        }
                    }
                    Op::Byte { .. } => {
                        env.cov.fault("raw_garbage_byte");
                        any_fault = true;
                        let ctx_now = if cfg.set == 2 { m2.ctx as usize } else { m1.ctx as usize };
                        if ctx_now != 0 {
                            env.cov.probe("fault_while_prefix_pending");
                        }
                    }
                    _ => {}
                }
                since_fault = 0;
            } else if !prev_clean {
                env.cov.probe("clean_sequence_right_after_fault");
            }
            if let Op::Key { pfx, code, brk: false, fault: BFault::None } = top.op {
                if i > 0 {
                    if let Op::Key { pfx: p2, code: c2, brk: false, .. } = trace.ops[i - 1].op {
                        if p2 == pfx && c2 == code {
                            env.cov.probe("typematic_repeat");
                        }
                    }
                }
            }
            let mut results: Vec<Res> = Vec::with_capacity(bytes.len());
            let mut fresh = DynSet::new(cfg.set); // per-sequence fresh decoder (C07 recovery)
            let clear_at: Option<usize> = match top.op {
                Op::Key { fault: BFault::ClearAt(n), .. } => Some((n as usize).min(bytes.len().saturating_sub(1))),
                _ => None,
            };
            for (bi, b) in bytes.iter().copied().enumerate() {
                if clear_at == Some(bi) && self.prop != BProp::C07 {
                    kb.clear();
                    kb_word.clear();
                    kb_bit.clear();
                    env.cov.api_calls += 3;
                    env.cov.probe("keyboard_clear_inside_a_key_sequence");
                }
                let ctx = if cfg.set == 2 { m2.ctx as usize } else { m1.ctx as usize };
                let r = Res::of(&real.advance_state(b));
                env.cov.api_calls += 1;
                let m = if cfg.set == 2 { m2.advance(env.tables, b) } else { m1.advance(env.tables, b) };
                h.mix(((ctx as u64) << 8 | b as u64) ^ (r.hash() << 16));
                results.push(r);
                if ctx != 0 && (b == 0x00 || b == 0xAA) {
                    env.cov.probe("status_byte_00_or_AA_after_prefix");
                }
                // window bookkeeping
                win.push((ctx, b));
                if win.len() > 3 {
                    win.remove(0);
                }
                match self.prop {
                    BProp::C01 | BProp::C02 => {
                        env.cov.hit("cells_ctx_x_byte", ctx * 256 + b as usize);
                        if win.len() >= 2 {
                            let (c0, b0) = win[win.len() - 2];
                            env.cov.hit("two_byte_windows", c0 * 65536 + (b0 as usize) * 256 + b as usize);
                        }
                        if let Res::Ev(k, s) = r {
                            if kidx(k) < NKEYS {
                                env.cov.hit("key_x_state_delivered", kidx(k) * 3 + sidx(s));
                            }
                        }
                        // both observation points named by the property
                        let rk = Res::of(&kb.add_byte(b));
                        env.cov.api_calls += 1;
                        env.cov.evaluations += 2;
                        if rk != r {
                            violation = Some(Violation {
                                oracle: "keyboard-add_byte-equals-advance_state".into(),
                                op_index: i,
                                detail: format!("byte {:02X}: advance_state gave {}, Keyboard::add_byte gave {}", b, r.show(), rk.show()),
                            });
                            break 'ops;
                        }
                        // the documented loop: what the byte decoded to goes on to the same object's
                        // event stage before the next byte arrives
                        if let Res::Ev(k, st) = rk {
                            let _ = kb.process_keyevent(pc_keyboard::KeyEvent::new(k, st));
                            env.cov.api_calls += 1;
                        }
                        {
                            let w = bits_word(&encode_frame(b));
                            if (i * 7 + bi) % 5 == 2 {
                                // a frame the line damaged (parity / stop bit): rejected, no byte
                                let bad = if (i + bi) % 2 == 0 { w ^ 0x200 } else { (w ^ 0x55 << 1) & 0x3FF };
                                let _ = kb_word.add_word(bad);
                                for bit in word_bits(bad) {
                                    let _ = kb_bit.add_bit(bit);
                                }
                                env.cov.api_calls += 12;
                                env.cov.probe("rejected_frame_between_the_bytes_of_the_stream");
                            }
                            let rw = Res::of(&kb_word.add_word(w));
                            let mut rb = Res::Pending;
                            let mut early = false;
                            for (j, bit) in word_bits(w).iter().enumerate() {
                                let x = Res::of(&kb_bit.add_bit(*bit));
                                if j < 10 {
                                    early |= x != Res::Pending;
                                } else {
                                    rb = x;
                                }
                            }
                            env.cov.api_calls += 12;
                            env.cov.evaluations += 2;
                            if rw != r || rb != r || early {
                                violation = Some(Violation {
                                    oracle: "keyboard-frame-routes-equal-advance_state".into(),
                                    op_index: i,
                                    detail: format!(
                                        "byte {:02X} of the stream: advance_state gave {}, the same stream as valid frames gave {} through Keyboard::add_word and {} through Keyboard::add_bit{}",
                                        b,
                                        r.show(),
                                        rw.show(),
                                        rb.show(),
                                        if early { " (a result before the 11th bit)" } else { "" }
                                    ),
                                });
                                break 'ops;
                            }
                            if let Res::Ev(k, st) = r {
                                let _ = kb_word.process_keyevent(pc_keyboard::KeyEvent::new(k, st));
                                let _ = kb_bit.process_keyevent(pc_keyboard::KeyEvent::new(k, st));
                                env.cov.api_calls += 2;
                            }
                        }
                        if r != m {
                            let names: &[&str] = if cfg.set == 2 { &CTX2_NAMES } else { &CTX1_NAMES };
                            let sig = format!("set{}/{}/{:02X}/got={}/want={}", cfg.set, names[ctx], b, r.show(), m.show());
                            let detail = format!(
                                "Set {} decoder in context {} fed {:02X} returned {}, the standard table says {}",
                                cfg.set,
                                names[ctx],
                                b,
                                r.show(),
                                m.show()
                            );
                            if let Some(v) = env.disagree(pid, "lockstep-reference-decoder", &sig, i, detail) {
                                violation = Some(v);
                                break 'ops;
                            }
                        }
                    }
                    BProp::C07 => {
                        env.cov.hit("cells_set_ctx_x_byte", cell_base + ctx * 256 + b as usize);
                        if since_fault == 0 && any_fault {
                            // first byte after the last fault so far: stale context x byte
                            env.cov.hit("stale_ctx_x_next_byte_after_last_fault", cell_base + ctx * 256 + b as usize);
                        }
                        if win.len() == 3 && win[0].0 == 0 {
                            let idx = ((cfg.set as usize - 1) << 24) | (win[0].1 as usize) << 16 | (win[1].1 as usize) << 8 | win[2].1 as usize;
                            env.cov.hit("three_byte_windows_after_boundary", idx);
                        }
                        // (a) fresh-decoder shadow
                        let s = Res::of(&shadow.advance_state(b));
                        let f = Res::of(&fresh.advance_state(b));
                        let _ = f;
                        env.cov.api_calls += 2;
                        env.cov.evaluations += 1;
                        if s != r {
                            violation = Some(Violation {
                                oracle: "fresh-decoder-shadow".into(),
                                op_index: i,
                                detail: format!(
                                    "Set {}: after its last event/error the decoder answered {} to byte {:02X}, a fresh decoder given the same bytes since then answers {}",
                                    cfg.set,
                                    r.show(),
                                    b,
                                    s.show()
                                ),
                            });
                            break 'ops;
                        }
                        // (b) run length of 'no event yet'
                        if r == Res::Pending {
                            pend_run += 1;
                            if pend_run > pend_limit {
                                violation = Some(Violation {
                                    oracle: "pending-run-length".into(),
                                    op_index: i,
                                    detail: format!("Set {}: {} consecutive bytes returned Ok(None) (limit {})", cfg.set, pend_run, pend_limit),
                                });
                                break 'ops;
                            }
                        } else {
                            pend_run = 0;
                            shadow = DynSet::new(cfg.set);
                            env.cov.probe(if matches!(r, Res::Err(_)) { "obs_shadow_replaced_after_error" } else { "obs_shadow_replaced_after_event" });
                        }
                        // the same two oracles for the decoder behind Keyboard::add_byte
                        let rk = Res::of(&kb.add_byte(b));
                        let sk = Res::of(&kb_shadow.add_byte(b));
                        env.cov.api_calls += 2;
                        env.cov.evaluations += 1;
                        if rk != sk {
                            violation = Some(Violation {
                                oracle: "fresh-decoder-shadow".into(),
                                op_index: i,
                                detail: format!(
                                    "Set {} behind Keyboard::add_byte: after its last event/error the keyboard answered {} to byte {:02X}, a fresh Keyboard given the same bytes since then answers {}",
                                    cfg.set,
                                    rk.show(),
                                    b,
                                    sk.show()
                                ),
                            });
                            break 'ops;
                        }
                        if rk == Res::Pending {
                            kb_pend_run += 1;
                            if kb_pend_run > pend_limit {
                                violation = Some(Violation {
                                    oracle: "pending-run-length".into(),
                                    op_index: i,
                                    detail: format!("Set {} behind Keyboard::add_byte: {} consecutive bytes returned Ok(None) (limit {})", cfg.set, kb_pend_run, pend_limit),
                                });
                                break 'ops;
                            }
                        } else {
                            kb_pend_run = 0;
                            kb_shadow = KbAny::new(cfg.set, DynLayout::Direct(2), hc(true));
                        }
                    }
                }
                since_fault = since_fault.saturating_add(1);
            }
            // ground truth for clean sequences once the faults are one sequence behind
            if clean && prev_clean {
                if let Op::Key { pfx, code, brk, .. } = top.op {
                    match self.prop {
                        BProp::C01 | BProp::C02 => {
                            let want_key = key_of(env.tables, cfg, pfx, code);
                            let spec_knows = want_key.is_some() || cfg.set == 2 || cfg.xt;
                            if spec_knows {
                                let want = match want_key {
                                    None => Res::Err(pc_keyboard::Error::UnknownKeyCode),
                                    Some(k) => {
                                        if cfg.set == 2 && pfx == 0 && !brk && (k == KeyCode::TooManyKeys || k == KeyCode::PowerOnTestOk) {
                                            Res::Ev(k, KeyState::SingleShot)
                                        } else {
                                            Res::Ev(k, if brk { KeyState::Up } else { KeyState::Down })
                                        }
                                    }
                                };
                                env.cov.probe("ground_truth_checked");
                                env.cov.evaluations += 1;
                                let n = results.len();
                                let prefix_ok = results[..n - 1].iter().all(|r| *r == Res::Pending);
                                let got = results[n - 1];
                                if !prefix_ok || got != want {
                                    let (ctxname, lastb) = if cfg.set == 2 {
                                        (CTX2_NAMES[ctx2_of(pfx, brk)], *bytes.last().unwrap())
                                    } else {
                                        (CTX1_NAMES[pfx as usize % 3], *bytes.last().unwrap())
                                    };
                                    let sig = if prefix_ok {
                                        format!("set{}/{}/{:02X}/got={}/want={}", cfg.set, ctxname, lastb, got.show(), want.show())
                                    } else {
                                        format!("set{}/{}/{:02X}/prefix-bytes-produced-a-result", cfg.set, ctxname, lastb)
                                    };
                                    let detail = format!(
                                        "typist {} physical key (prefix class {}, code {:02X}); host read {:02X?} and decoded {:?}, expected {}",
                                        if brk { "released" } else { "pressed" },
                                        pfx,
                                        code,
                                        bytes,
                                        results.iter().map(|r| r.show()).collect::<Vec<_>>(),
                                        want.show()
                                    );
                                    if let Some(v) = env.disagree(pid, "typist-ground-truth", &sig, i, detail) {
                                        violation = Some(v);
                                        break 'ops;
                                    }
                                }
                            }
                        }
                        BProp::C07 => {
                            // (c) bounded recovery: from the second clean sequence after the
                            // last fault, every sequence means what it means to a fresh decoder
                            let mut f = DynSet::new(cfg.set);
                            let want: Vec<Res> = bytes.iter().map(|b| Res::of(&f.advance_state(*b))).collect();
                            env.cov.api_calls += bytes.len() as u64;
                            env.cov.evaluations += 1;
                            env.cov.probe("recovery_checked");
                            if want != results {
                                violation = Some(Violation {
                                    oracle: "recovery-after-faults".into(),
                                    op_index: i,
                                    detail: format!(
                                        "Set {}: two clean sequences after the last fault, bytes {:02X?} decoded as {:?}; a fresh decoder gives {:?}",
                                        cfg.set,
                                        bytes,
                                        results.iter().map(|r| r.show()).collect::<Vec<_>>(),
                                        want.iter().map(|r| r.show()).collect::<Vec<_>>()
                                    ),
                                });
                                break 'ops;
                            }
                        }
                    }
                }
            }
            prev_clean = clean;
            if env.verbose {
                env.log.push(format!("op {} {} -> bytes {:02X?} -> {:?}", i, op_show(&top.op), bytes, results.iter().map(|r| r.show()).collect::<Vec<_>>()));
            }
        }
        env.cov.sim_time_ns += last_t as u128;
        if any_fault {
            env.cov.faulty_runs += 1;
        } else {
            env.cov.fault_free_runs += 1;
        }
        if let Some(v) = &violation {
            h.mix(crate::rng::fnv(v.oracle.as_bytes()));
        }
        Outcome { violation, log_hash: h.0 }
    }

    fn primary_reach(&self) -> &'static str {
        match self.prop {
            BProp::C07 => "cells_set_ctx_x_byte",
            _ => "cells_ctx_x_byte",
        }
    }
    fn required(&self, cov: &Cov, _tier: Tier) -> Vec<Shortfall> {
        let mut out = Vec::new();
        require_full(cov, self.primary_reach(), &mut out);
        require_probes(cov, &mut out);
        out
    }
    fn rule(&self) -> String {
        match self.prop {
            BProp::C01 | BProp::C02 => "one evaluation = one real advance_state/add_byte result compared with the reference decoder (lock-step) or with the typist's ground truth; distinct_nontrivial = distinct (reference prefix context, byte) transitions compared (bitset count); cases come from a seeded typist/device/fault simulation, the run index additionally selects one focus cell so every transition is reached whatever the seed".into(),
            BProp::C07 => "one evaluation = one real result compared with a fresh real decoder spawned at the previous event/error (shadow) or fed the sequence alone (recovery); distinct_nontrivial = distinct (set, reference prefix context, byte) transitions observed (bitset count)".into(),
        }
    }
    fn assumptions(&self) -> Vec<String> {
        let mut v = vec![
            "sampled, not enumerated: coverage is what the reach bitsets report".to_string(),
            "the decoders carry no state other than what later return values reveal (no hook into private fields)".to_string(),
        ];
        if self.prop != BProp::C07 {
            v.push("trusted base: SPEC tables transcribed from the README conversion table (2 README slips corrected), the 8042 translation table, RefSet1/RefSet2 (model.rs)".into());
        } else {
            v.push("table-independent: the only reference is a fresh instance of the real decoder".into());
        }
        v
    }
    fn components_real(&self) -> Vec<&'static str> {
        match self.prop {
            BProp::C01 => vec!["ScancodeSet2::advance_state", "Keyboard::add_byte"],
            BProp::C02 => vec!["ScancodeSet1::advance_state", "Keyboard::add_byte"],
            BProp::C07 => vec!["ScancodeSet1::advance_state", "ScancodeSet2::advance_state"],
        }
    }
    fn components_model(&self) -> Vec<&'static str> {
        vec!["typist", "Set 2 keyboard device encoder", "native Set 1 device encoder", "i8042 translation", "byte fault injector", "RefSet1/RefSet2 (coverage and lock-step)"]
    }
}
