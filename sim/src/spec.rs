//! Specification data: the IBM/Microsoft Set 1 / Set 2 tables as printed in the
//! README conversion table (two documentation slips corrected against the
//! standard, see DESIGN.md 4.1), and the i8042 Set 2 -> Set 1 translation table.
//! Nothing here is derived from the crate's own match tables.
use crate::keys::*;
use pc_keyboard::KeyCode;

/// prefix context of a code byte: 0 = none, 1 = E0, 2 = E1
pub type Pc = (u8, u8);

/// (key, Set 1 (prefix, code), Set 2 (prefix, code))
pub const SPEC: [(KeyCode, Option<Pc>, Option<Pc>); 123] = [
    (KeyCode::Escape, Some((0, 0x01)), Some((0, 0x76))),
    (KeyCode::F1, Some((0, 0x3B)), Some((0, 0x05))),
    (KeyCode::F2, Some((0, 0x3C)), Some((0, 0x06))),
    (KeyCode::F3, Some((0, 0x3D)), Some((0, 0x04))),
    (KeyCode::F4, Some((0, 0x3E)), Some((0, 0x0C))),
    (KeyCode::F5, Some((0, 0x3F)), Some((0, 0x03))),
    (KeyCode::F6, Some((0, 0x40)), Some((0, 0x0B))),
    (KeyCode::F7, Some((0, 0x41)), Some((0, 0x83))),
    (KeyCode::F8, Some((0, 0x42)), Some((0, 0x0A))),
    (KeyCode::F9, Some((0, 0x43)), Some((0, 0x01))),
    (KeyCode::F10, Some((0, 0x44)), Some((0, 0x09))),
    (KeyCode::F11, Some((0, 0x57)), Some((0, 0x78))),
    (KeyCode::F12, Some((0, 0x58)), Some((0, 0x07))),
    (KeyCode::PrintScreen, Some((1, 0x37)), Some((1, 0x7C))),
    (KeyCode::SysRq, Some((0, 0x54)), Some((0, 0x7F))),
    (KeyCode::ScrollLock, Some((0, 0x46)), Some((0, 0x7E))),
    (KeyCode::Oem8, Some((0, 0x29)), Some((0, 0x0E))),
    (KeyCode::Key1, Some((0, 0x02)), Some((0, 0x16))),
    (KeyCode::Key2, Some((0, 0x03)), Some((0, 0x1E))),
    (KeyCode::Key3, Some((0, 0x04)), Some((0, 0x26))),
    (KeyCode::Key4, Some((0, 0x05)), Some((0, 0x25))),
    (KeyCode::Key5, Some((0, 0x06)), Some((0, 0x2E))),
    (KeyCode::Key6, Some((0, 0x07)), Some((0, 0x36))),
    (KeyCode::Key7, Some((0, 0x08)), Some((0, 0x3D))),
    (KeyCode::Key8, Some((0, 0x09)), Some((0, 0x3E))),
    (KeyCode::Key9, Some((0, 0x0A)), Some((0, 0x46))),
    (KeyCode::Key0, Some((0, 0x0B)), Some((0, 0x45))),
    (KeyCode::OemMinus, Some((0, 0x0C)), Some((0, 0x4E))),
    (KeyCode::OemPlus, Some((0, 0x0D)), Some((0, 0x55))),
    (KeyCode::Backspace, Some((0, 0x0E)), Some((0, 0x66))),
    (KeyCode::Insert, Some((1, 0x52)), Some((1, 0x70))),
    (KeyCode::Home, Some((1, 0x47)), Some((1, 0x6C))),
    (KeyCode::PageUp, Some((1, 0x49)), Some((1, 0x7D))),
    (KeyCode::NumpadLock, Some((0, 0x45)), Some((0, 0x77))),
    (KeyCode::NumpadDivide, Some((1, 0x35)), Some((1, 0x4A))),
    (KeyCode::NumpadMultiply, Some((0, 0x37)), Some((0, 0x7C))),
    (KeyCode::NumpadSubtract, Some((0, 0x4A)), Some((0, 0x7B))),
    (KeyCode::Tab, Some((0, 0x0F)), Some((0, 0x0D))),
    (KeyCode::Q, Some((0, 0x10)), Some((0, 0x15))),
    (KeyCode::W, Some((0, 0x11)), Some((0, 0x1D))),
    (KeyCode::E, Some((0, 0x12)), Some((0, 0x24))),
    (KeyCode::R, Some((0, 0x13)), Some((0, 0x2D))),
    (KeyCode::T, Some((0, 0x14)), Some((0, 0x2C))),
    (KeyCode::Y, Some((0, 0x15)), Some((0, 0x35))),
    (KeyCode::U, Some((0, 0x16)), Some((0, 0x3C))),
    (KeyCode::I, Some((0, 0x17)), Some((0, 0x43))),
    (KeyCode::O, Some((0, 0x18)), Some((0, 0x44))),
    (KeyCode::P, Some((0, 0x19)), Some((0, 0x4D))),
    (KeyCode::Oem4, Some((0, 0x1A)), Some((0, 0x54))),
    (KeyCode::Oem6, Some((0, 0x1B)), Some((0, 0x5B))),
    (KeyCode::Oem5, Some((0, 0x56)), Some((0, 0x61))),
    (KeyCode::Oem7, Some((0, 0x2B)), Some((0, 0x5D))),
    (KeyCode::Delete, Some((1, 0x53)), Some((1, 0x71))),
    (KeyCode::End, Some((1, 0x4F)), Some((1, 0x69))),
    (KeyCode::PageDown, Some((1, 0x51)), Some((1, 0x7A))),
    (KeyCode::Numpad7, Some((0, 0x47)), Some((0, 0x6C))),
    (KeyCode::Numpad8, Some((0, 0x48)), Some((0, 0x75))),
    (KeyCode::Numpad9, Some((0, 0x49)), Some((0, 0x7D))),
    (KeyCode::NumpadAdd, Some((0, 0x4E)), Some((0, 0x79))),
    (KeyCode::CapsLock, Some((0, 0x3A)), Some((0, 0x58))),
    (KeyCode::A, Some((0, 0x1E)), Some((0, 0x1C))),
    (KeyCode::S, Some((0, 0x1F)), Some((0, 0x1B))),
    (KeyCode::D, Some((0, 0x20)), Some((0, 0x23))),
    (KeyCode::F, Some((0, 0x21)), Some((0, 0x2B))),
    (KeyCode::G, Some((0, 0x22)), Some((0, 0x34))),
    (KeyCode::H, Some((0, 0x23)), Some((0, 0x33))),
    (KeyCode::J, Some((0, 0x24)), Some((0, 0x3B))),
    (KeyCode::K, Some((0, 0x25)), Some((0, 0x42))),
    (KeyCode::L, Some((0, 0x26)), Some((0, 0x4B))),
    (KeyCode::Oem1, Some((0, 0x27)), Some((0, 0x4C))),
    (KeyCode::Oem3, Some((0, 0x28)), Some((0, 0x52))),
    (KeyCode::Return, Some((0, 0x1C)), Some((0, 0x5A))),
    (KeyCode::Numpad4, Some((0, 0x4B)), Some((0, 0x6B))),
    (KeyCode::Numpad5, Some((0, 0x4C)), Some((0, 0x73))),
    (KeyCode::Numpad6, Some((0, 0x4D)), Some((0, 0x74))),
    (KeyCode::LShift, Some((0, 0x2A)), Some((0, 0x12))),
    (KeyCode::Z, Some((0, 0x2C)), Some((0, 0x1A))),
    (KeyCode::X, Some((0, 0x2D)), Some((0, 0x22))),
    (KeyCode::C, Some((0, 0x2E)), Some((0, 0x21))),
    (KeyCode::V, Some((0, 0x2F)), Some((0, 0x2A))),
    (KeyCode::B, Some((0, 0x30)), Some((0, 0x32))),
    (KeyCode::N, Some((0, 0x31)), Some((0, 0x31))),
    (KeyCode::M, Some((0, 0x32)), Some((0, 0x3A))),
    (KeyCode::OemComma, Some((0, 0x33)), Some((0, 0x41))),
    (KeyCode::OemPeriod, Some((0, 0x34)), Some((0, 0x49))),
    (KeyCode::Oem2, Some((0, 0x35)), Some((0, 0x4A))),
    (KeyCode::RShift, Some((0, 0x36)), Some((0, 0x59))),
    (KeyCode::ArrowUp, Some((1, 0x48)), Some((1, 0x75))),
    (KeyCode::Numpad1, Some((0, 0x4F)), Some((0, 0x69))),
    (KeyCode::Numpad2, Some((0, 0x50)), Some((0, 0x72))),
    (KeyCode::Numpad3, Some((0, 0x51)), Some((0, 0x7A))),
    (KeyCode::NumpadEnter, Some((1, 0x1C)), Some((1, 0x5A))),
    (KeyCode::LControl, Some((0, 0x1D)), Some((0, 0x14))),
    (KeyCode::LWin, Some((1, 0x5B)), Some((1, 0x1F))),
    (KeyCode::LAlt, Some((0, 0x38)), Some((0, 0x11))),
    (KeyCode::Spacebar, Some((0, 0x39)), Some((0, 0x29))),
    (KeyCode::RAltGr, Some((1, 0x38)), Some((1, 0x11))),
    (KeyCode::RWin, Some((1, 0x5C)), Some((1, 0x27))),
    (KeyCode::Apps, Some((1, 0x5D)), Some((1, 0x2F))),
    (KeyCode::RControl, Some((1, 0x1D)), Some((1, 0x14))),
    (KeyCode::ArrowLeft, Some((1, 0x4B)), Some((1, 0x6B))),
    (KeyCode::ArrowDown, Some((1, 0x50)), Some((1, 0x72))),
    (KeyCode::ArrowRight, Some((1, 0x4D)), Some((1, 0x74))),
    (KeyCode::Numpad0, Some((0, 0x52)), Some((0, 0x70))),
    (KeyCode::NumpadPeriod, Some((0, 0x53)), Some((0, 0x71))),
    (KeyCode::Oem9, Some((0, 0x7B)), Some((0, 0x67))),
    (KeyCode::Oem10, Some((0, 0x79)), Some((0, 0x64))),
    (KeyCode::Oem11, Some((0, 0x70)), Some((0, 0x13))),
    (KeyCode::Oem12, Some((0, 0x73)), Some((0, 0x51))),
    (KeyCode::Oem13, Some((0, 0x7D)), Some((0, 0x6A))),
    (KeyCode::PrevTrack, Some((1, 0x10)), Some((1, 0x15))),
    (KeyCode::NextTrack, Some((1, 0x19)), Some((1, 0x4D))),
    (KeyCode::Mute, Some((1, 0x20)), Some((1, 0x23))),
    (KeyCode::Calculator, Some((1, 0x21)), Some((1, 0x2B))),
    (KeyCode::Play, Some((1, 0x22)), Some((1, 0x34))),
    (KeyCode::Stop, Some((1, 0x24)), Some((1, 0x3B))),
    (KeyCode::VolumeDown, Some((1, 0x2E)), Some((1, 0x21))),
    (KeyCode::VolumeUp, Some((1, 0x30)), Some((1, 0x32))),
    (KeyCode::WWWHome, Some((1, 0x32)), Some((1, 0x3A))),
    (KeyCode::TooManyKeys, None, Some((0, 0x00))),
    (KeyCode::PowerOnTestOk, None, Some((0, 0xAA))),
    (KeyCode::RControl2, Some((2, 0x1D)), Some((2, 0x14))),
    (KeyCode::RAlt2, Some((1, 0x2A)), Some((1, 0x12))),
];

/// The 8042 translation table (Set 2 code -> Set 1 code), bytes 00..=8F; bytes
/// above are passed unchanged. Source: the table every AT-compatible keyboard
/// controller implements (A. Brouwer, "Keyboard scancodes", section 10).
pub const XLATE_LOW: [u8; 0x90] = [
    0xff, 0x43, 0x41, 0x3f, 0x3d, 0x3b, 0x3c, 0x58, 0x64, 0x44, 0x42, 0x40, 0x3e, 0x0f, 0x29, 0x59,
    0x65, 0x38, 0x2a, 0x70, 0x1d, 0x10, 0x02, 0x5a, 0x66, 0x71, 0x2c, 0x1f, 0x1e, 0x11, 0x03, 0x5b,
    0x67, 0x2e, 0x2d, 0x20, 0x12, 0x05, 0x04, 0x5c, 0x68, 0x39, 0x2f, 0x21, 0x14, 0x13, 0x06, 0x5d,
    0x69, 0x31, 0x30, 0x23, 0x22, 0x15, 0x07, 0x5e, 0x6a, 0x72, 0x32, 0x24, 0x16, 0x08, 0x09, 0x5f,
    0x6b, 0x33, 0x25, 0x17, 0x18, 0x0b, 0x0a, 0x60, 0x6c, 0x34, 0x35, 0x26, 0x27, 0x19, 0x0c, 0x61,
    0x6d, 0x73, 0x28, 0x74, 0x1a, 0x0d, 0x62, 0x6e, 0x3a, 0x36, 0x1c, 0x1b, 0x75, 0x2b, 0x63, 0x76,
    0x55, 0x56, 0x77, 0x78, 0x79, 0x7a, 0x0e, 0x7b, 0x7c, 0x4f, 0x7d, 0x4b, 0x47, 0x7e, 0x7f, 0x6f,
    0x52, 0x53, 0x50, 0x4c, 0x4d, 0x48, 0x01, 0x45, 0x57, 0x4e, 0x51, 0x4a, 0x37, 0x49, 0x46, 0x54,
    0x80, 0x81, 0x82, 0x41, 0x54, 0x85, 0x86, 0x87, 0x88, 0x89, 0x8a, 0x8b, 0x8c, 0x8d, 0x8e, 0x8f,
];

#[inline]
pub fn xlate(b: u8) -> u8 {
    if (b as usize) < XLATE_LOW.len() {
        XLATE_LOW[b as usize]
    } else {
        b
    }
}

/// Set 2 codes for which the translation is meaningful (yields a 7-bit make code).
pub fn translatable(code: u8) -> bool {
    (0x01..=0x7F).contains(&code) || code == 0x83 || code == 0x84
}

static TABLES: std::sync::OnceLock<Tables> = std::sync::OnceLock::new();
/// The reference tables of this process (embedded transcription + live README).
pub fn tables() -> &'static Tables {
    TABLES.get_or_init(Tables::build)
}

/// Where the crate under test lives (set by build.rs from the path dependency).
pub const REPO_DIR: &str = env!("PCSIM_REPO_DIR");

/// Lookup tables: [prefix][code] -> key. Built from the embedded transcription
/// (SPEC) overlaid with the README conversion table of the tree under test as it
/// is now - the property names that table as the reference, so a key that is
/// added to the crate together with its README row is part of the standard the
/// decoders are held to. A README row is taken over only if it is consistent
/// with the 8042 translation; the two known README slips never are.
pub struct Tables {
    pub set2: [[Option<KeyCode>; 256]; 3],
    pub set1: [[Option<KeyCode>; 256]; 3],
    /// (key, Set 1 sequence, Set 2 sequence) as used by the typist
    pub rows: Vec<(KeyCode, Option<Pc>, Option<Pc>)>,
    /// informational: README errata and README rows that differ from the transcription
    pub notes: Vec<String>,
}

impl Tables {
    /// embedded transcription only
    pub fn embedded() -> Tables {
        let mut t = Tables { set2: [[None; 256]; 3], set1: [[None; 256]; 3], rows: Vec::new(), notes: Vec::new() };
        for (k, s1, s2) in SPEC.iter() {
            t.rows.push((*k, *s1, *s2));
        }
        t.index();
        t
    }
    fn index(&mut self) {
        self.set2 = [[None; 256]; 3];
        self.set1 = [[None; 256]; 3];
        for (k, s1, s2) in self.rows.iter() {
            if let Some((p, c)) = s1 {
                self.set1[*p as usize][*c as usize] = Some(*k);
            }
            if let Some((p, c)) = s2 {
                self.set2[*p as usize][*c as usize] = Some(*k);
            }
        }
    }
    /// embedded transcription overlaid with the live README
    pub fn build() -> Tables {
        let mut t = Tables::embedded();
        let path = format!("{}/README.md", REPO_DIR);
        let rows = match parse_readme(&path) {
            Ok(r) => r,
            Err(e) => {
                t.notes.push(format!("README not read ({}); using the embedded transcription", e));
                return t;
            }
        };
        if rows.len() < 100 {
            t.notes.push(format!("README conversion table not recognised ({} rows parsed); using the embedded transcription", rows.len()));
            return t;
        }
        // keys the harness does not know by name are resolved through what the real
        // decoders answer (name -> enum value only; not what code they sit on)
        let mut discovered: Vec<(String, KeyCode)> = Vec::new();
        let mut resolve = |name: &str| -> Option<KeyCode> {
            if let Some(k) = key_by_name(name) {
                return Some(k);
            }
            if discovered.is_empty() {
                use pc_keyboard::{ScancodeSet, ScancodeSet1, ScancodeSet2};
                for pfx in [None, Some(0xE0u8), Some(0xE1u8)] {
                    for code in 0u16..256 {
                        let mut d2 = ScancodeSet2::new();
                        let mut d1 = ScancodeSet1::new();
                        let mut last2 = None;
                        let mut last1 = None;
                        if let Some(p) = pfx {
                            let _ = d2.advance_state(p);
                            let _ = d1.advance_state(p);
                        }
                        if let Ok(Some(e)) = d2.advance_state(code as u8) {
                            last2 = Some(e.code);
                        }
                        if let Ok(Some(e)) = d1.advance_state(code as u8) {
                            last1 = Some(e.code);
                        }
                        for k in [last2, last1].into_iter().flatten() {
                            let n = format!("{:?}", k);
                            if !discovered.iter().any(|(m, _)| *m == n) {
                                discovered.push((n, k));
                            }
                        }
                    }
                }
            }
            discovered.iter().find(|(n, _)| n == name).map(|(_, k)| *k)
        };
        let mut seen_names: Vec<String> = Vec::new();
        for (name, a, b) in rows {
            seen_names.push(name.clone());
            let k = match resolve(&name) {
                Some(k) => k,
                None => {
                    if a.is_some() || b.is_some() {
                        t.notes.push(format!("README row {} names a key no decoder ever reports; row ignored", name));
                    }
                    continue;
                }
            };
            let cur = t.rows.iter().position(|r| r.0 == k);
            let (e1, e2) = cur.map(|i| (t.rows[i].1, t.rows[i].2)).unwrap_or((None, None));
            if (e1, e2) == (a, b) {
                continue;
            }
            // consistent with the controller's translation?
            let consistent = match (a, b) {
                (Some((p1, c1)), Some((p2, c2))) => p1 == p2 && xlate(c2) == c1,
                _ => true,
            };
            if !consistent {
                if e1 != a {
                    t.notes.push(format!("README {} Set 1 prints {:?}, standard {:?} (README row is not the 8042 translation of its own Set 2 code; transcription kept)", name, a, e1));
                }
                if e2 != b {
                    t.notes.push(format!("README {} Set 2 prints {:?}, standard {:?} (README row is not the 8042 translation of its own Set 1 code; transcription kept)", name, b, e2));
                }
                continue;
            }
            t.notes.push(format!("README row {} = ({:?}, {:?}) differs from the embedded transcription ({:?}, {:?}); the README of the tree under test is the reference, row taken over", name, a, b, e1, e2));
            match cur {
                Some(i) => {
                    t.rows[i].1 = a;
                    t.rows[i].2 = b;
                }
                None => t.rows.push((k, a, b)),
            }
        }
        // rows the README no longer has
        let before = t.rows.len();
        t.rows.retain(|r| seen_names.iter().any(|n| *n == format!("{:?}", r.0)));
        if t.rows.len() != before {
            t.notes.push(format!("{} keys of the embedded transcription are no longer in the README; dropped from the reference", before - t.rows.len()));
        }
        t.index();
        t
    }
}

/// README rows as found in /repo/README.md right now (informational).
pub fn parse_readme(path: &str) -> Result<Vec<(String, Option<Pc>, Option<Pc>)>, String> {
    let text = std::fs::read_to_string(path).map_err(|e| format!("{}: {}", path, e))?;
    let mut rows = Vec::new();
    fn cell(s: &str) -> Option<Option<Pc>> {
        let s = s.trim();
        if s == "--" {
            return Some(None);
        }
        let h = s.strip_prefix("0x")?;
        let v = u32::from_str_radix(h, 16).ok()?;
        if v > 0xFF {
            let p = match v >> 8 {
                0xE0 => 1,
                0xE1 => 2,
                _ => return None,
            };
            Some(Some((p, (v & 0xFF) as u8)))
        } else {
            Some(Some((0, v as u8)))
        }
    }
    for l in text.lines() {
        let parts: Vec<&str> = l.split('|').collect();
        if parts.len() != 5 {
            continue;
        }
        let name = parts[1].trim();
        if name.is_empty() || name == "-" || name == "Symbolic Key" || name.starts_with("---") {
            continue;
        }
        if let (Some(a), Some(b)) = (cell(parts[2]), cell(parts[3])) {
            rows.push((name.to_string(), a, b));
        }
    }
    Ok(rows)
}

/// Self-check of the transcribed data. Err => harness error (exit 2).
/// Returns informational notes (README errata).
pub fn selfcheck() -> Result<Vec<String>, String> {
    let mut notes = Vec::new();
    // every key except PauseBreak appears exactly once
    let mut seen = [false; NKEYS + 1];
    for (k, _, _) in SPEC.iter() {
        if seen[kidx(*k)] {
            return Err(format!("SPEC lists {:?} twice", k));
        }
        seen[kidx(*k)] = true;
    }
    for (i, s) in seen.iter().enumerate().take(NKEYS) {
        if !*s && ALL_KEYS[i] != KeyCode::PauseBreak {
            return Err(format!("SPEC lacks {:?}", ALL_KEYS[i]));
        }
    }
    // no two keys share a sequence within a set
    let t = Tables::embedded();
    let n1 = t.set1.iter().flatten().filter(|x| x.is_some()).count();
    let n2 = t.set2.iter().flatten().filter(|x| x.is_some()).count();
    if n1 != 121 || n2 != 123 {
        return Err(format!("SPEC has {} Set 1 and {} Set 2 sequences, expected 121/123", n1, n2));
    }
    // SPEC_SET1 == XLATE(SPEC_SET2), prefixes kept
    for (k, s1, s2) in SPEC.iter() {
        if let (Some((p1, c1)), Some((p2, c2))) = (s1, s2) {
            if p1 != p2 || xlate(*c2) != *c1 {
                return Err(format!(
                    "SPEC row {:?}: set2 ({},{:02X}) translates to ({},{:02X}), table says ({},{:02X})",
                    k, p2, c2, p2, xlate(*c2), p1, c1
                ));
            }
        }
    }
    Ok(notes)
}
