//! The operation alphabet of all scenarios, and the replay-file format.
//!
//! A run is recorded as a concrete, fault-annotated operation list: the
//! simulator's decisions after they were taken, not the PRNG stream. Every op is
//! self-contained (it carries its own ground truth), so any sub-list of a trace
//! is again a legitimate scenario - which is what makes minimisation sound -
//! and replaying a file is a pure function of the file and the code.
use std::fmt::Write as _;

/// Fault applied to the byte sequence of one key action (after the i8042, i.e.
/// on what the host reads). Indices are taken modulo the sequence length.
#[derive(Clone, Copy, PartialEq, Eq, Debug)]
pub enum BFault {
    None,
    /// byte i never arrives (FIFO overrun)
    Drop(u8),
    /// byte i arrives twice (resend)
    Dup(u8),
    /// garbage byte b arrives before byte i
    Ins(u8, u8),
    /// bit `bit` of byte i is flipped
    Flip(u8, u8),
    /// bytes i and i+1 swapped
    Swap(u8),
    /// byte i replaced by b
    Repl(u8, u8),
    /// not a byte fault: the host calls clear() after i bytes of the sequence (DUAL scenario)
    ClearAt(u8),
}

/// Fault applied to one 11-bit frame on the wire.
#[derive(Clone, Copy, PartialEq, Eq, Debug)]
pub enum WFault {
    None,
    /// bits in mask (11-bit) flipped
    Flip(u16),
    /// clock edge i never seen by the host (10 bits arrive)
    DropEdge(u8),
    /// a spurious edge with value v before bit i (12 bits arrive)
    ExtraEdge(u8, bool),
    /// cable pulled after n edges (n < 11)
    Trunc(u8),
}

#[derive(Clone, Copy, PartialEq, Eq, Debug)]
pub enum Via {
    Bit,
    Word,
}

#[derive(Clone, Copy, PartialEq, Eq, Debug)]
pub enum Op {
    /// the typist presses (brk=false) or releases (brk=true) the physical key
    /// (prefix class 0/1/2, code); the device (and the i8042 if the host reads
    /// Set 1) turn that into bytes; `fault` is applied to those bytes
    Key { pfx: u8, code: u8, brk: bool, fault: BFault },
    /// one byte handed to the byte interface as it is (garbage, near-miss, AA, 00)
    Byte { b: u8 },
    /// the device sends `sent` as one frame; `fault` is what the wire does to it
    Frame { sent: u8, fault: WFault, via: Via },
    /// 11 arbitrary bits (line noise / stuck line)
    Noise { word: u16, via: Via },
    /// a single stray clock edge
    Edge { bit: bool },
    /// watchdog (or application) calls clear()
    Clear,
    /// process_keyevent(key, state) called directly
    Ev { key: u8, st: u8 },
    /// main loop: pop one queued KeyEvent (if any) and process it
    Pev,
    SetCtrl { map: bool },
    /// change_layout (recorder id, or layout object index)
    Layout { id: u8 },
    /// chaos only: add_word with an arbitrary 16-bit value
    Word16 { w: u16 },
    /// chaos only: map_keycode called directly on layout object `layout`
    Map { layout: u8, key: u8, mods: u16, map: bool },
    /// chaos only: switch which object subsequent ops address
    Obj { id: u8 },
}

#[derive(Clone, Copy, PartialEq, Eq, Debug)]
pub struct TOp {
    /// simulated time in ns at which the op happens (informational for the executor)
    pub t: u64,
    pub op: Op,
}

#[derive(Clone, PartialEq, Eq, Debug)]
pub struct Cfg {
    /// scancode set the host decodes: 1 or 2
    pub set: u8,
    /// Set 1 only: true = native XT-style Set 1 device, false = Set 2 device behind the i8042
    pub xt: bool,
    /// layout object index (0..30) or 255 = recording layout
    pub layout: u8,
    /// initial HandleControl: true = MapLettersToUnicode
    pub map: bool,
    /// secondary seed (re-interleaving in C18's schedule-independence oracle)
    pub seed2: u64,
    /// fault rate class of the run, 0 = fault-free (informational)
    pub rate: u8,
    /// which object the run drives where a scenario has a choice (0 = Keyboard, 1 = bare stage)
    pub obj: u8,
}

impl Default for Cfg {
    fn default() -> Cfg {
        Cfg { set: 2, xt: false, layout: 2, map: true, seed2: 0, rate: 0, obj: 0 }
    }
}

#[derive(Clone, Debug)]
pub struct Expect {
    pub oracle: String,
    pub detail: String,
}

#[derive(Clone, Debug)]
pub struct Trace {
    pub prop: String,
    pub cfg: Cfg,
    pub ops: Vec<TOp>,
    pub seed: u64,
    pub run: u64,
    pub expect: Option<Expect>,
}

impl Op {
    pub fn kind(&self) -> u8 {
        match self {
            Op::Key { .. } => 0,
            Op::Byte { .. } => 1,
            Op::Frame { .. } => 2,
            Op::Noise { .. } => 3,
            Op::Edge { .. } => 4,
            Op::Clear => 5,
            Op::Ev { .. } => 6,
            Op::Pev => 7,
            Op::SetCtrl { .. } => 8,
            Op::Layout { .. } => 9,
            Op::Word16 { .. } => 10,
            Op::Map { .. } => 11,
            Op::Obj { .. } => 12,
        }
    }
    /// does this op inject a fault (as opposed to ordinary workload)?
    pub fn is_fault(&self) -> bool {
        match self {
            Op::Key { fault, .. } => *fault != BFault::None,
            Op::Byte { .. } => true,
            Op::Frame { fault, .. } => *fault != WFault::None,
            Op::Noise { .. } | Op::Edge { .. } => true,
            _ => false,
        }
    }
}

fn bf_show(f: &BFault) -> String {
    match f {
        BFault::None => "none".into(),
        BFault::Drop(i) => format!("drop:{}", i),
        BFault::Dup(i) => format!("dup:{}", i),
        BFault::Ins(i, b) => format!("ins:{}:{:02X}", i, b),
        BFault::Flip(i, b) => format!("flip:{}:{}", i, b),
        BFault::Swap(i) => format!("swap:{}", i),
        BFault::Repl(i, b) => format!("repl:{}:{:02X}", i, b),
        BFault::ClearAt(i) => format!("clear_at:{}", i),
    }
}
fn wf_show(f: &WFault) -> String {
    match f {
        WFault::None => "none".into(),
        WFault::Flip(m) => format!("flip:{:03X}", m),
        WFault::DropEdge(i) => format!("drop_edge:{}", i),
        WFault::ExtraEdge(i, v) => format!("extra_edge:{}:{}", i, *v as u8),
        WFault::Trunc(n) => format!("trunc:{}", n),
    }
}
fn via_show(v: &Via) -> &'static str {
    match v {
        Via::Bit => "bit",
        Via::Word => "word",
    }
}

pub fn op_show(op: &Op) -> String {
    match op {
        Op::Key { pfx, code, brk, fault } => format!(
            "key pfx={} code={:02X} dir={} fault={}",
            pfx,
            code,
            if *brk { "break" } else { "make" },
            bf_show(fault)
        ),
        Op::Byte { b } => format!("byte b={:02X}", b),
        Op::Frame { sent, fault, via } => format!("frame sent={:02X} fault={} via={}", sent, wf_show(fault), via_show(via)),
        Op::Noise { word, via } => format!("noise word={:03X} via={}", word, via_show(via)),
        Op::Edge { bit } => format!("edge bit={}", *bit as u8),
        Op::Clear => "clear".into(),
        Op::Ev { key, st } => format!(
            "ev key={} state={}",
            crate::keys::KEY_NAMES.get(*key as usize).copied().unwrap_or("?"),
            ["Up", "Down", "SingleShot"][*st as usize % 3]
        ),
        Op::Pev => "pev".into(),
        Op::SetCtrl { map } => format!("setctrl map={}", *map as u8),
        Op::Layout { id } => format!("layout id={}", id),
        Op::Word16 { w } => format!("word16 w={:04X}", w),
        Op::Map { layout, key, mods, map } => format!(
            "map layout={} key={} mods={:03X} map={}",
            layout,
            crate::keys::KEY_NAMES.get(*key as usize).copied().unwrap_or("?"),
            mods,
            *map as u8
        ),
        Op::Obj { id } => format!("obj id={}", id),
    }
}

impl Trace {
    pub fn render(&self) -> String {
        let mut s = String::new();
        let _ = writeln!(s, "# pcsim replay v1 property={} origin: seed={} run={}", self.prop, self.seed, self.run);
        let _ = writeln!(s, "property {}", self.prop);
        let _ = writeln!(s, "origin seed={} run={}", self.seed, self.run);
        let c = &self.cfg;
        let _ = writeln!(
            s,
            "cfg set={} xt={} layout={} map={} seed2={} rate={} obj={}",
            c.set, c.xt as u8, c.layout, c.map as u8, c.seed2, c.rate, c.obj
        );
        if let Some(e) = &self.expect {
            let _ = writeln!(s, "expect oracle={}", e.oracle);
            let _ = writeln!(s, "expect-detail {}", e.detail.replace('\n', " ").replace('\r', " "));
        }
        for o in &self.ops {
            let _ = writeln!(s, "t={} {}", o.t, op_show(&o.op));
        }
        s
    }

    pub fn parse(text: &str) -> Result<Trace, String> {
        let mut tr = Trace { prop: String::new(), cfg: Cfg::default(), ops: Vec::new(), seed: 0, run: 0, expect: None };
        let mut exp_oracle: Option<String> = None;
        let mut exp_detail: Option<String> = None;
        for (ln, line) in text.lines().enumerate() {
            let line = line.trim();
            if line.is_empty() || line.starts_with('#') {
                continue;
            }
            let err = |m: &str| format!("line {}: {}: {}", ln + 1, m, line);
            if let Some(rest) = line.strip_prefix("expect-detail ") {
                exp_detail = Some(rest.to_string());
                continue;
            }
            let toks: Vec<&str> = line.split_whitespace().collect();
            let kv = |name: &str| -> Option<&str> {
                toks.iter().find_map(|t| t.strip_prefix(name).and_then(|r| r.strip_prefix('=')))
            };
            let num = |name: &str| -> Result<u64, String> {
                kv(name).ok_or_else(|| err(&format!("missing {}", name)))?.parse::<u64>().map_err(|_| err(&format!("bad {}", name)))
            };
            let hex = |name: &str| -> Result<u64, String> {
                u64::from_str_radix(kv(name).ok_or_else(|| err(&format!("missing {}", name)))?, 16).map_err(|_| err(&format!("bad {}", name)))
            };
            match toks[0] {
                "property" => tr.prop = toks.get(1).ok_or_else(|| err("missing id"))?.to_string(),
                "origin" => {
                    tr.seed = num("seed")?;
                    tr.run = num("run")?;
                }
                "cfg" => {
                    tr.cfg = Cfg {
                        set: num("set")? as u8,
                        xt: num("xt")? != 0,
                        layout: num("layout")? as u8,
                        map: num("map")? != 0,
                        seed2: num("seed2")?,
                        rate: num("rate")? as u8,
                        obj: num("obj").unwrap_or(0) as u8,
                    };
                    if tr.cfg.set != 1 && tr.cfg.set != 2 {
                        return Err(err("set must be 1 or 2"));
                    }
                }
                "expect" => exp_oracle = Some(kv("oracle").ok_or_else(|| err("missing oracle"))?.to_string()),
                t0 if t0.starts_with("t=") => {
                    let t = num("t")?;
                    let kind = *toks.get(1).ok_or_else(|| err("missing op"))?;
                    let via = || -> Result<Via, String> {
                        match kv("via") {
                            Some("bit") => Ok(Via::Bit),
                            Some("word") => Ok(Via::Word),
                            _ => Err(err("bad via")),
                        }
                    };
                    let op = match kind {
                        "key" => {
                            let f = kv("fault").ok_or_else(|| err("missing fault"))?;
                            let p: Vec<&str> = f.split(':').collect();
                            let a = |i: usize| -> Result<u8, String> {
                                p.get(i).ok_or_else(|| err("fault arg"))?.parse::<u8>().map_err(|_| err("fault arg"))
                            };
                            let h = |i: usize| -> Result<u8, String> {
                                u8::from_str_radix(p.get(i).ok_or_else(|| err("fault arg"))?, 16).map_err(|_| err("fault arg"))
                            };
                            let fault = match p[0] {
                                "none" => BFault::None,
                                "drop" => BFault::Drop(a(1)?),
                                "dup" => BFault::Dup(a(1)?),
                                "ins" => BFault::Ins(a(1)?, h(2)?),
                                "flip" => BFault::Flip(a(1)?, a(2)? % 8),
                                "swap" => BFault::Swap(a(1)?),
                                "repl" => BFault::Repl(a(1)?, h(2)?),
                                "clear_at" => BFault::ClearAt(a(1)?),
                                _ => return Err(err("unknown byte fault")),
                            };
                            let pfx = num("pfx")? as u8;
                            if pfx > 2 {
                                return Err(err("pfx must be 0..=2"));
                            }
                            Op::Key {
                                pfx,
                                code: hex("code")? as u8,
                                brk: match kv("dir") {
                                    Some("make") => false,
                                    Some("break") => true,
                                    _ => return Err(err("bad dir")),
                                },
                                fault,
                            }
                        }
                        "byte" => Op::Byte { b: hex("b")? as u8 },
                        "frame" => {
                            let f = kv("fault").ok_or_else(|| err("missing fault"))?;
                            let p: Vec<&str> = f.split(':').collect();
                            let a = |i: usize| -> Result<u8, String> {
                                p.get(i).ok_or_else(|| err("fault arg"))?.parse::<u8>().map_err(|_| err("fault arg"))
                            };
                            let fault = match p[0] {
                                "none" => WFault::None,
                                "flip" => WFault::Flip(
                                    u16::from_str_radix(p.get(1).ok_or_else(|| err("fault arg"))?, 16).map_err(|_| err("fault arg"))? & 0x7FF,
                                ),
                                "drop_edge" => WFault::DropEdge(a(1)? % 11),
                                "extra_edge" => WFault::ExtraEdge(a(1)? % 12, a(2)? != 0),
                                "trunc" => WFault::Trunc(a(1)? % 11),
                                _ => return Err(err("unknown wire fault")),
                            };
                            Op::Frame { sent: hex("sent")? as u8, fault, via: via()? }
                        }
                        "noise" => Op::Noise { word: (hex("word")? as u16) & 0x7FF, via: via()? },
                        "edge" => Op::Edge { bit: num("bit")? != 0 },
                        "clear" => Op::Clear,
                        "ev" => {
                            let k = crate::keys::KEY_NAMES
                                .iter()
                                .position(|n| Some(*n) == kv("key"))
                                .ok_or_else(|| err("unknown key"))?;
                            let st = ["Up", "Down", "SingleShot"]
                                .iter()
                                .position(|n| Some(*n) == kv("state"))
                                .ok_or_else(|| err("unknown state"))?;
                            Op::Ev { key: k as u8, st: st as u8 }
                        }
                        "pev" => Op::Pev,
                        "setctrl" => Op::SetCtrl { map: num("map")? != 0 },
                        "layout" => Op::Layout { id: num("id")? as u8 },
                        "word16" => Op::Word16 { w: hex("w")? as u16 },
                        "map" => {
                            let k = crate::keys::KEY_NAMES
                                .iter()
                                .position(|n| Some(*n) == kv("key"))
                                .ok_or_else(|| err("unknown key"))?;
                            Op::Map { layout: num("layout")? as u8, key: k as u8, mods: (hex("mods")? as u16) & 0x1FF, map: num("map")? != 0 }
                        }
                        "obj" => Op::Obj { id: num("id")? as u8 },
                        _ => return Err(err("unknown op")),
                    };
                    tr.ops.push(TOp { t, op });
                }
                _ => return Err(err("unknown line")),
            }
        }
        if tr.prop.is_empty() {
            return Err("no property line".into());
        }
        if let Some(o) = exp_oracle {
            tr.expect = Some(Expect { oracle: o, detail: exp_detail.unwrap_or_default() });
        }
        Ok(tr)
    }
}
