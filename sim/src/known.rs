//! Known findings: genuine defects recorded rather than repaired. The file is
//! committed, line-oriented, and never written at run time.
//!
//!   finding: property=C02 id=F1 sig=<signature> :: <what fails>
//!   fixed: property=<id> <commit> <what failed>        (suppresses nothing)

pub struct Finding {
    pub prop: String,
    pub id: String,
    pub sig: String,
    pub what: String,
}

pub struct Known {
    pub findings: Vec<Finding>,
    pub fixed_lines: Vec<String>,
}

impl Known {
    pub fn empty() -> Known {
        Known { findings: Vec::new(), fixed_lines: Vec::new() }
    }
    pub fn load(path: &str) -> Result<Known, String> {
        let text = match std::fs::read_to_string(path) {
            Ok(t) => t,
            Err(e) => return Err(format!("{}: {}", path, e)),
        };
        let mut k = Known::empty();
        for (ln, line) in text.lines().enumerate() {
            let line = line.trim();
            if line.is_empty() || line.starts_with('#') {
                continue;
            }
            if let Some(rest) = line.strip_prefix("fixed:") {
                k.fixed_lines.push(rest.trim().to_string());
                continue;
            }
            let rest = line.strip_prefix("finding:").ok_or_else(|| format!("{}:{}: unknown line", path, ln + 1))?;
            let (head, what) = match rest.split_once("::") {
                Some((h, w)) => (h, w.trim()),
                None => (rest, ""),
            };
            let mut prop = None;
            let mut id = None;
            let mut sig = None;
            for tok in head.split_whitespace() {
                if let Some(v) = tok.strip_prefix("property=") {
                    prop = Some(v.to_string());
                } else if let Some(v) = tok.strip_prefix("id=") {
                    id = Some(v.to_string());
                } else if let Some(v) = tok.strip_prefix("sig=") {
                    sig = Some(v.to_string());
                }
            }
            match (prop, id, sig) {
                (Some(prop), Some(id), Some(sig)) => k.findings.push(Finding { prop, id, sig, what: what.to_string() }),
                _ => return Err(format!("{}:{}: finding needs property= id= sig=", path, ln + 1)),
            }
        }
        Ok(k)
    }
    pub fn matches(&self, prop: &str, sig: &str) -> Option<usize> {
        self.findings.iter().position(|f| f.prop == prop && f.sig == sig)
    }
}
