//! SplitMix64-seeded xoshiro256**. The only source of nondeterminism in the
//! simulator: every scheduling decision, delay, workload choice and fault is
//! drawn from one of these, initialised from (VERIF_SEED, property, run index).

#[derive(Clone)]
pub struct Rng {
    s: [u64; 4],
}

pub fn splitmix(x: &mut u64) -> u64 {
    *x = x.wrapping_add(0x9E37_79B9_7F4A_7C15);
    let mut z = *x;
    z = (z ^ (z >> 30)).wrapping_mul(0xBF58_476D_1CE4_E5B9);
    z = (z ^ (z >> 27)).wrapping_mul(0x94D0_49BB_1331_11EB);
    z ^ (z >> 31)
}

/// FNV-1a, used to fold a property id into the seed and for log hashes.
pub fn fnv(bytes: &[u8]) -> u64 {
    let mut h: u64 = 0xcbf2_9ce4_8422_2325;
    for b in bytes {
        h ^= *b as u64;
        h = h.wrapping_mul(0x0000_0100_0000_01B3);
    }
    h
}

/// Seed of run `i` of the batch for `prop` under batch seed `seed`.
pub fn run_seed(seed: u64, prop: &str, i: u64) -> u64 {
    let mut x = seed ^ fnv(prop.as_bytes()).rotate_left(17);
    let a = splitmix(&mut x);
    let mut y = a ^ i.wrapping_mul(0xD6E8_FEB8_6659_FD93);
    splitmix(&mut y)
}

impl Rng {
    pub fn new(seed: u64) -> Rng {
        let mut x = seed;
        let s = [splitmix(&mut x), splitmix(&mut x), splitmix(&mut x), splitmix(&mut x)];
        Rng { s }
    }
    #[inline]
    pub fn next(&mut self) -> u64 {
        let r = self.s[1].wrapping_mul(5).rotate_left(7).wrapping_mul(9);
        let t = self.s[1] << 17;
        self.s[2] ^= self.s[0];
        self.s[3] ^= self.s[1];
        self.s[1] ^= self.s[2];
        self.s[0] ^= self.s[3];
        self.s[2] ^= t;
        self.s[3] = self.s[3].rotate_left(45);
        r
    }
    /// uniform in 0..n (n > 0)
    #[inline]
    pub fn below(&mut self, n: u64) -> u64 {
        debug_assert!(n > 0);
        ((self.next() as u128 * n as u128) >> 64) as u64
    }
    #[inline]
    pub fn range(&mut self, lo: u64, hi_incl: u64) -> u64 {
        lo + self.below(hi_incl - lo + 1)
    }
    #[inline]
    pub fn byte(&mut self) -> u8 {
        (self.next() >> 56) as u8
    }
    #[inline]
    pub fn bool(&mut self) -> bool {
        (self.next() >> 63) != 0
    }
    /// true with probability num/den
    #[inline]
    pub fn chance(&mut self, num: u64, den: u64) -> bool {
        self.below(den) < num
    }
    pub fn pick<'a, T>(&mut self, xs: &'a [T]) -> &'a T {
        &xs[self.below(xs.len() as u64) as usize]
    }
}

/// Order-sensitive rolling hash of an event log (never draws from an Rng).
#[derive(Clone, Copy)]
pub struct LogHash(pub u64);
impl LogHash {
    pub fn new() -> LogHash {
        LogHash(0x1234_5678_9ABC_DEF1)
    }
    #[inline]
    pub fn mix(&mut self, v: u64) {
        let mut x = self.0 ^ v.wrapping_mul(0x9E37_79B9_7F4A_7C15);
        x = (x ^ (x >> 29)).wrapping_mul(0xBF58_476D_1CE4_E5B9);
        self.0 = x ^ (x >> 32);
    }
}
