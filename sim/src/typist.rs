//! The typist + keyboard-device workload generator shared by the byte-level
//! scenarios: presses and releases physical keys (known to the standard or
//! not), holds chords, lets keys auto-repeat, hits Pause / PrintScreen, and the
//! byte-fault injector that decorates the resulting op list.
use crate::op::{BFault, Cfg, Op, TOp};
use crate::rng::Rng;
use crate::spec::Tables;
use crate::world::*;

pub const MS: u64 = 1_000_000;

#[derive(Clone, Copy, PartialEq, Eq, Debug)]
pub enum Style {
    Prose,
    Chords,
    Mash,
    Unknown,
    Bursts,
    Numpad,
}
pub const STYLES: [Style; 6] = [Style::Prose, Style::Chords, Style::Mash, Style::Unknown, Style::Bursts, Style::Numpad];

pub struct TypistParams {
    pub style: Style,
    pub actions: usize,
    /// over-sampled stratum for unknown keys: (prefix class, code block 0..16)
    pub stratum: (u8, u8),
}

/// Physical keys the standard knows, for the configured device.
pub fn known_phys(cfg: &Cfg) -> Vec<(u8, u8)> {
    let mut v = Vec::new();
    for (_, s1, s2) in crate::spec::tables().rows.iter() {
        if cfg.set == 1 && cfg.xt {
            if let Some(pc) = s1 {
                v.push(*pc);
            }
        } else if let Some(pc) = s2 {
            // 00 / AA are status bytes, not keys a typist can press
            if pc.0 == 0 && (pc.1 == 0x00 || pc.1 == 0xAA) {
                continue;
            }
            if phys_valid(cfg, pc.0, pc.1) {
                v.push(*pc);
            }
        }
    }
    v
}

fn modifier_phys(cfg: &Cfg) -> Vec<(u8, u8)> {
    // LShift RShift LCtrl RCtrl LAlt RAltGr CapsLock NumLock, in the device's encoding
    if cfg.set == 1 && cfg.xt {
        vec![(0, 0x2A), (0, 0x36), (0, 0x1D), (1, 0x1D), (0, 0x38), (1, 0x38), (0, 0x3A), (0, 0x45)]
    } else {
        vec![(0, 0x12), (0, 0x59), (0, 0x14), (1, 0x14), (0, 0x11), (1, 0x11), (0, 0x58), (0, 0x77)]
    }
}

fn random_phys(rng: &mut Rng, cfg: &Cfg, stratum: (u8, u8)) -> (u8, u8) {
    for _ in 0..64 {
        let (pfx, code) = if rng.chance(1, 2) {
            (stratum.0 % 3, (stratum.1 % 16) * 16 + rng.below(16) as u8)
        } else {
            (rng.below(3) as u8, rng.byte())
        };
        let code = if cfg.set == 1 && cfg.xt { code & 0x7F } else { code };
        if phys_valid(cfg, pfx, code) {
            return (pfx, code);
        }
    }
    (0, 0x1C)
}

/// Clean (fault-free) op list of one typing session.
pub fn type_session(rng: &mut Rng, cfg: &Cfg, p: &TypistParams) -> Vec<TOp> {
    let mut known = known_phys(cfg);
    let mods = modifier_phys(cfg);
    // swarm: a third of the sessions use only a handful of keys (plus the modifiers), which
    // makes specific orderings among few keys - roll-overs, A-B-A patterns - common
    if rng.chance(1, 3) && known.len() > 8 {
        let n = rng.range(2, 7) as usize;
        let mut few: Vec<(u8, u8)> = Vec::with_capacity(n + 2);
        for _ in 0..n {
            few.push(*rng.pick(&known));
        }
        if rng.bool() {
            few.push(*rng.pick(&mods));
        }
        known = few;
    }
    let mut ops: Vec<TOp> = Vec::new();
    let mut held: Vec<(u8, u8)> = Vec::new();
    let mut t: u64 = 0;
    let max_held = match p.style {
        Style::Prose | Style::Numpad => 2,
        Style::Chords => 4,
        Style::Mash => {
            if rng.chance(1, 4) {
                rng.range(17, 40) as usize // a forearm (or a cat) on the keyboard
            } else {
                8
            }
        }
        Style::Unknown => 3,
        Style::Bursts => 2,
    };
    let key = |pfx: u8, code: u8, brk: bool| Op::Key { pfx, code, brk, fault: BFault::None };
    for _ in 0..p.actions {
        t += rng.range(5, 400) * MS;
        // Pause / PrintScreen bursts: back-to-back multi-sequence keys
        if rng.chance(if p.style == Style::Bursts { 30 } else { 3 }, 100) {
            let native1 = cfg.set == 1 && cfg.xt;
            let burst: &[(u8, u8, bool)] = if rng.bool() {
                if native1 {
                    // Pause on a native Set 1 keyboard: E1 1D 45 E1 9D C5
                    &[(2, 0x1D, false), (0, 0x45, false), (2, 0x1D, true), (0, 0x45, true)]
                } else {
                    // Pause: E1 14 77 E1 F0 14 F0 77
                    &[(2, 0x14, false), (0, 0x77, false), (2, 0x14, true), (0, 0x77, true)]
                }
            } else if rng.bool() {
                if native1 {
                    // PrintScreen make: E0 2A E0 37
                    &[(1, 0x2A, false), (1, 0x37, false)]
                } else {
                    // PrintScreen make: E0 12 E0 7C
                    &[(1, 0x12, false), (1, 0x7C, false)]
                }
            } else if native1 {
                // PrintScreen break: E0 B7 E0 AA
                &[(1, 0x37, true), (1, 0x2A, true)]
            } else {
                // PrintScreen break: E0 F0 7C E0 F0 12
                &[(1, 0x7C, true), (1, 0x12, true)]
            };
            for (pf, c, b) in burst {
                if phys_valid(cfg, *pf, *c) {
                    ops.push(TOp { t, op: key(*pf, *c, *b) });
                    t += 1 * MS;
                }
            }
            continue;
        }
        // drumming: the same key tapped again and again (Backspace, an arrow, ScrollLock twice
        // for a KVM switch) - mostly a few taps, sometimes dozens
        if rng.chance(1, 60) {
            let (pf, c) = if rng.chance(1, 3) { *rng.pick(&mods) } else { *rng.pick(&known) };
            if !held.contains(&(pf, c)) {
                let taps = if rng.chance(1, 4) { rng.range(10, 45) } else { rng.range(2, 6) };
                for _ in 0..taps {
                    ops.push(TOp { t, op: key(pf, c, false) });
                    t += rng.range(20, 120) * MS;
                    ops.push(TOp { t, op: key(pf, c, true) });
                    t += rng.range(20, 200) * MS;
                }
                continue;
            }
        }
        // a navigation key the way real keyboards send it: wrapped in fake shifts. With a
        // Shift held (NumLock off) the keyboard first "releases" the shift (E0 F0 12), sends the
        // key, and "re-presses" it afterwards (E0 12); with NumLock on and no Shift it is the
        // other way round
        if rng.chance(1, 40) {
            let native1 = cfg.set == 1 && cfg.xt;
            let (shift, fake): ((u8, u8), (u8, u8)) = if native1 { ((0, 0x2A), (1, 0x2A)) } else { ((0, 0x12), (1, 0x12)) };
            let navs: &[u8] = if native1 { &[0x52, 0x47, 0x49, 0x53, 0x4F, 0x51, 0x48, 0x4B, 0x50, 0x4D, 0x35] } else { &[0x70, 0x6C, 0x7D, 0x71, 0x69, 0x7A, 0x75, 0x6B, 0x72, 0x74, 0x4A] };
            let nav = (1u8, *rng.pick(navs));
            let shift_held = held.contains(&shift) || rng.bool();
            if shift_held && !held.contains(&shift) {
                ops.push(TOp { t, op: key(shift.0, shift.1, false) });
                held.push(shift);
                t += rng.range(20, 200) * MS;
            }
            // shift held: fake release first; otherwise (NumLock case) fake press first
            ops.push(TOp { t, op: key(fake.0, fake.1, shift_held) });
            t += MS;
            for _ in 0..rng.range(1, 4) {
                ops.push(TOp { t, op: key(nav.0, nav.1, false) });
                t += rng.range(30, 300) * MS;
            }
            ops.push(TOp { t, op: key(nav.0, nav.1, true) });
            t += MS;
            ops.push(TOp { t, op: key(fake.0, fake.1, !shift_held) });
            continue;
        }
        let release = !held.is_empty() && (held.len() >= max_held || rng.chance(45, 100));
        if release {
            let i = rng.below(held.len() as u64) as usize;
            let (pf, c) = held.remove(i);
            ops.push(TOp { t, op: key(pf, c, true) });
            continue;
        }
        if !held.is_empty() && rng.chance(10, 100) {
            // typematic: the most recently pressed key repeats after the delay
            let (pf, c) = *held.last().unwrap();
            t += rng.range(250, 1000) * MS;
            // usually a few repeats; now and then somebody leans on the key for half a minute
            // (half of those long holds end right around the 256-repeat mark, where 8-bit
            // bookkeeping would wrap, and the finger then often rolls onto a neighbouring key)
            let long = rng.chance(1, 300);
            let reps = if !long {
                rng.range(1, 4)
            } else if rng.chance(1, 25) {
                // a book on the keyboard: past the 16-bit mark, now and then past 2^18 and 2^20
                match rng.below(24) {
                    0 => rng.range(1_048_570, 1_048_600),
                    1..=4 => rng.range(262_140, 262_200),
                    _ => rng.range(65_530, 66_200),
                }
            } else if rng.bool() {
                rng.range(250, 262)
            } else {
                rng.range(258, 700)
            };
            for _ in 0..reps {
                ops.push(TOp { t, op: key(pf, c, false) });
                t += rng.range(30, 500) * MS;
            }
            if long && rng.chance(1, 2) {
                let nc = if rng.bool() { c.wrapping_add(1) } else { c.wrapping_sub(1) };
                if phys_valid(cfg, pf, nc) {
                    ops.push(TOp { t, op: key(pf, nc, false) });
                    if !held.contains(&(pf, nc)) {
                        held.push((pf, nc));
                    }
                }
            }
            continue;
        }
        let (pf, c) = match p.style {
            Style::Unknown => {
                if rng.chance(3, 4) {
                    random_phys(rng, cfg, p.stratum)
                } else {
                    *rng.pick(&known)
                }
            }
            Style::Chords => {
                if rng.chance(1, 2) {
                    *rng.pick(&mods)
                } else {
                    *rng.pick(&known)
                }
            }
            _ => {
                if rng.chance(1, 10) {
                    random_phys(rng, cfg, p.stratum)
                } else {
                    *rng.pick(&known)
                }
            }
        };
        if !held.contains(&(pf, c)) {
            held.push((pf, c));
        }
        ops.push(TOp { t, op: key(pf, c, false) });
    }
    // the typist lets go of everything
    while let Some((pf, c)) = held.pop() {
        t += rng.range(5, 100) * MS;
        ops.push(TOp { t, op: key(pf, c, true) });
    }
    ops
}

/// All byte-fault kinds, for swarm selection.
pub const BFAULT_KINDS: usize = 8; // drop dup ins flip swap repl rawbyte hotplug/overrun

pub fn draw_bfault(rng: &mut Rng, kinds_mask: u32, nbytes: usize, garbage: &mut dyn FnMut(&mut Rng) -> u8) -> BFault {
    // biased: half of the drops hit the final (code) byte, which leaves the
    // decoder holding a prefix - in-flight state
    for _ in 0..16 {
        let k = rng.below(6) as u32;
        if kinds_mask & (1 << k) == 0 {
            continue;
        }
        let i = rng.below(nbytes.max(1) as u64) as u8;
        return match k {
            0 => BFault::Drop(if rng.bool() { (nbytes.max(1) - 1) as u8 } else { i }),
            1 => BFault::Dup(i),
            2 => BFault::Ins(rng.below(nbytes as u64 + 1) as u8, garbage(rng)),
            3 => BFault::Flip(i, rng.below(8) as u8),
            4 => BFault::Swap(i),
            _ => BFault::Repl(i, garbage(rng)),
        };
    }
    BFault::None
}

/// Decorate a clean session with byte faults. `rate_pct` is the per-op fault
/// probability in percent; the last third of the ops stays fault-free so that
/// recovery is always exercised. Returns the number of faults placed.
pub fn inject_bfaults(rng: &mut Rng, cfg: &Cfg, ops: &mut Vec<TOp>, rate_pct: u64, kinds_mask: u32, stratum: (u8, u8)) -> usize {
    if rate_pct == 0 {
        return 0;
    }
    let limit = ops.len() * 2 / 3;
    let mut out: Vec<TOp> = Vec::with_capacity(ops.len() + 8);
    let mut placed = 0;
    let block = stratum.1 % 16;
    let mut garbage = |rng: &mut Rng| -> u8 {
        match rng.below(4) {
            0 => block * 16 + rng.below(16) as u8,
            1 => *rng.pick(&[0xE0u8, 0xE1, 0xF0, 0x00, 0xAA, 0xFA, 0xFE, 0xFF, 0x83, 0x84, 0x7F]),
            _ => rng.byte(),
        }
    };
    for (i, o) in ops.iter().enumerate() {
        let mut o = *o;
        if i < limit && rng.chance(rate_pct, 100) {
            // raw garbage / hot-plug / overrun byte between two key actions
            if kinds_mask & (1 << 6) != 0 && rng.chance(1, 4) {
                let b = garbage(rng);
                // usually one stray byte; now and then a stuck line or a flood of identical
                // replies (FA/FE/FF...), around and beyond the 256 mark
                let reps = if !rng.chance(1, 60) {
                    1
                } else if rng.bool() {
                    rng.range(250, 262)
                } else {
                    rng.range(258, 600)
                };
                for _ in 0..reps {
                    out.push(TOp { t: o.t.saturating_sub(1), op: Op::Byte { b } });
                }
                placed += 1;
            } else if kinds_mask & (1 << 7) != 0 && rng.chance(1, 8) {
                // protocol traffic that is not key data: the device power-cycles (BAT completion
                // AA), overruns (00), acknowledges or rejects a host command (FA / FE), answers a
                // reset (FA AA) or an identify request (FA AB 83), echoes (EE), fails its BAT (FC)
                let seq: &[u8] = *rng.pick(&[
                    &[0xAA][..],
                    &[0x00],
                    &[0xFA],
                    &[0xFE],
                    &[0xFA, 0xAA],
                    &[0xAA, 0xFA, 0xAB, 0x83],
                    &[0xFA, 0xAB, 0x83],
                    &[0xEE],
                    &[0xFC],
                    &[0xFA, 0xFA],
                ]);
                for b in seq {
                    let b = if cfg.set == 1 && !cfg.xt { crate::spec::xlate(*b) } else { *b };
                    out.push(TOp { t: o.t.saturating_sub(1), op: Op::Byte { b } });
                }
                placed += 1;
            } else if let Op::Key { pfx, code, brk, .. } = o.op {
                let n = host_bytes(cfg, pfx, code, brk).len();
                let f = draw_bfault(rng, kinds_mask, n, &mut garbage);
                if f != BFault::None {
                    o.op = Op::Key { pfx, code, brk, fault: f };
                    placed += 1;
                }
            }
        }
        out.push(o);
    }
    *ops = out;
    placed
}

/// Convenience for scenarios that need the spec tables to pick keys.
pub fn key_of(t: &Tables, cfg: &Cfg, pfx: u8, code: u8) -> Option<pc_keyboard::KeyCode> {
    if cfg.set == 1 && cfg.xt {
        t.set1[pfx as usize % 3][code as usize]
    } else {
        t.set2[pfx as usize % 3][code as usize]
    }
}
