// Tell the simulator where the crate under test lives (the path dependency in
// Cargo.toml), so that it can read that tree's README conversion table - the
// reference C01/C02 name - at run time.
fn main() {
    let manifest = std::fs::read_to_string("Cargo.toml").expect("Cargo.toml");
    let mut dir = String::from("/repo");
    for l in manifest.lines() {
        if l.trim_start().starts_with("pc-keyboard") {
            if let Some(i) = l.find("path") {
                let rest = &l[i..];
                if let (Some(a), Some(b)) = (rest.find('"'), rest.rfind('"')) {
                    if b > a {
                        dir = rest[a + 1..b].to_string();
                    }
                }
            }
        }
    }
    println!("cargo:rustc-env=PCSIM_REPO_DIR={}", dir);
    println!("cargo:rerun-if-changed=Cargo.toml");
    println!("cargo:rerun-if-changed=build.rs");
}
